#!/venv/bin/python
"""tools/regress_audit.py - do the committed regression replays still describe the case they were
recorded for?  Re-executes every regress/<id>/*.json on the current tree and compares the case
description the sub-check produces now with the one stored in the file (keys present in both)."""
import json
import os
import sys
import warnings

ROOT = os.path.dirname(os.path.dirname(os.path.abspath(__file__)))
sys.path.insert(0, ROOT)
sys.path.insert(0, os.environ.get('VERIF_REPO', '/repo'))
os.environ.setdefault('PB_BSS_VERIF', '1')
warnings.simplefilter('ignore')
import numpy as np  # noqa: E402
from pbv import runner  # noqa: E402
from pbv.core import ReplayDraw  # noqa: E402


def main():
    bad = 0
    for pid in sorted(os.listdir(os.path.join(ROOT, 'regress'))):
        mod = runner.load_prop(pid)
        for fn in sorted(os.listdir(os.path.join(ROOT, 'regress', pid))):
            if not fn.endswith('.json'):
                continue
            doc = json.load(open(os.path.join(ROOT, 'regress', pid, fn)))
            if 'steps' in doc or not isinstance(doc.get('case'), dict):
                continue
            sc = [s for s in mod.SUBCHECKS if s.name == doc['subcheck']]
            if not sc:
                print(f'{pid}/{fn}: sub-check {doc["subcheck"]} no longer exists')
                bad += 1
                continue
            d = ReplayDraw(doc['choices'], epoch=doc.get('epoch', 1))
            with np.errstate(all='ignore'):
                outcome, ctx, info = runner.execute(sc[0], d)
            now = json.loads(json.dumps(ctx.desc, default=str))
            then = doc['case']
            diff = {k: (then[k], now[k]) for k in then if k in now and then[k] != now[k]}
            if diff:
                bad += 1
                print(f'{pid}/{fn}: outcome now {outcome}; description changed:')
                for k, (a, b) in diff.items():
                    print(f'     {k}: {str(a)[:150]}  ->  {str(b)[:150]}')
    print(f'{bad} replay(s) no longer describe their recorded case')
    return 1 if bad else 0


if __name__ == '__main__':
    sys.exit(main())
