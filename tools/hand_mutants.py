#!/venv/bin/python
"""Builds the hand-written core-logic mutants of DESIGN.md section 4 as patch
files under tools/mutants/hand_<name>.patch (unified diffs against /repo) and
prints the owner checks:   tools/hand_mutants.py [--run]
With --run every mutant is applied to a scratch copy and its owner checks are
run (tools/mutation_check.py)."""
import difflib
import os
import subprocess
import sys

ROOT = os.path.dirname(os.path.dirname(os.path.abspath(__file__)))
REPO = os.environ.get('VERIF_REPO', '/repo')
D = 'pb_bss/distribution/'
E = 'pb_bss/extraction/'

MUTANTS = [
 ('estep_ignores_weight', D + 'mixture_model_utils.py', "    affiliation *= weight\n", "    affiliation *= 1\n", ['C01', 'C08']),
 ('estep_no_max_subtraction', D + 'mixture_model_utils.py', "        affiliation = log_pdf - np.amax(log_pdf, axis=-2, keepdims=True)\n", "        affiliation = log_pdf - 0 * np.amax(log_pdf, axis=-2, keepdims=True)\n", ['C01']),
 ('cacg_no_tiny_floor', D + 'complex_angular_central_gaussian.py', "            np.finfo(y.dtype).tiny,\n        )\n        log_pdf = -D * np.log(quadratic_form)", "            0.,\n        )\n        log_pdf = -D * np.log(quadratic_form)", ['C01']),
 ('flag_normalises_over_time', 'pb_bss/initializer/deterministic.py', "        init /= np.sum(init, keepdims=True, axis=-2)", "        init /= np.sum(init, keepdims=True, axis=-1)", ['C01']),
 ('cacg_update_drops_D', D + 'complex_angular_central_gaussian.py', "        covariance = D * np.einsum(", "        covariance = 1 * np.einsum(", ['C08']),
 ('cacg_eigenvalues_not_inverted', D + 'complex_angular_central_gaussian.py', "                    1 / self.covariance_eigenvalues,", "                    self.covariance_eigenvalues,", ['C03', 'C07', 'C02']),
 ('watson_sign', D + 'complex_watson.py', "        result -= self.log_norm()[..., None]\n        return result\n\n    @staticmethod\n    def log_norm_low", "        result += self.log_norm()[..., None]\n        return result\n\n    @staticmethod\n    def log_norm_low", ['C07', 'C01']),
 ('watson_factorial_dropped', D + 'complex_watson.py', "                2 * np.pi ** dimension / math.factorial(dimension - 1)\n            )\n            log_norm = np.log(norm)", "                2 * np.pi ** dimension\n            )\n            log_norm = np.log(norm)", ['C07']),
 ('vmf_bessel_order', D + 'von_mises_fisher.py', "            + np.log(ive(D / 2 - 1, self.concentration))", "            + np.log(ive(D / 2, self.concentration))", ['C07']),
 ('cwmm_predict_no_normalisation', D + 'cwmm.py', "        assert np.iscomplexobj(y), y.dtype\n        y = y / np.maximum(\n            np.linalg.norm(y, axis=-1, keepdims=True), np.finfo(y.dtype).tiny\n        )\n        return self._predict(y)", "        assert np.iscomplexobj(y), y.dtype\n        return self._predict(y)", ['C04']),
 ('watson_real_part_only', D + 'complex_watson.py', "        result = result.real ** 2 + result.imag ** 2\n", "        result = result.real ** 2\n", ['C04', 'C07']),
 ('weights_first_class_special', D + 'mixture_model_utils.py', "    return weight\n\n\ndef _estimate_mixture_weight_with_dirichlet", "    weight = np.array(weight)\n    weight[..., 0, :] = weight[..., 0, :] * (1 + 1e-3)\n    return weight\n\n\ndef _estimate_mixture_weight_with_dirichlet", ['C05', 'C08']),
 ('saliency_dropped_from_denominator', D + 'gaussian.py', "            denominator = np.maximum(\n                np.sum(saliency, axis=-1),\n                np.finfo(y.dtype).tiny\n            )", "            denominator = np.array(y.shape[-2], dtype=float) + 0 * np.sum(saliency, axis=-1)", ['C08']),
 ('vmf_rbar_squared', D + 'von_mises_fisher.py', "        concentration = (r_bar * D - r_bar ** 3) / (1 - r_bar ** 2)", "        concentration = (r_bar * D - r_bar ** 2) / (1 - r_bar ** 2)", ['C08']),
 ('psd_conj_other_factor', E + 'beamformer.py', "            psd = np.einsum(\n                '...kt,...dt,...et->...kde',\n                mask,\n                observation,\n                observation.conj()\n            )", "            psd = np.einsum(\n                '...kt,...dt,...et->...kde',\n                mask,\n                observation.conj(),\n                observation\n            )", ['C10']),
 ('psd_divide_by_T', E + 'beamformer.py', "            mask /= np.maximum(\n                np.sum(mask, axis=time_dim, keepdims=True),\n                1e-10,\n            )", "            mask /= mask.shape[time_dim]", ['C10']),
 ('mvdr_missing_denominator', E + 'beamformer.py', "    beamforming_vector = numerator / np.expand_dims(denominator, axis=-1)\n", "    beamforming_vector = numerator / np.expand_dims(denominator.conj() ** 0, axis=-1)\n", ['C11']),
 ('souden_swapped', E + 'beamformer.py', "    phi = stable_solve(noise_psd_matrix, target_psd_matrix)\n    lambda_ = np.trace(phi, axis1=-1, axis2=-2)[..., None, None]\n    if eps is None:", "    phi = stable_solve(target_psd_matrix, noise_psd_matrix)\n    lambda_ = np.trace(phi, axis1=-1, axis2=-2)[..., None, None]\n    if eps is None:", ['C11', 'C17']),
 ('pca_first_eigenvector', E + 'beamformer.py', "        beamforming_vector = eigenvecs[..., -1]\n        eigenvalues = eigenvals[..., -1]\n        # Reconstruct original shape\n        beamforming_vector = np.reshape(beamforming_vector, shape[:-1])\n        eigenvalues = np.reshape(eigenvalues, shape[:-2])\n\n    return beamforming_vector, eigenvalues\n\n\ndef get_pca_vector", "        beamforming_vector = eigenvecs[..., 0]\n        eigenvalues = eigenvals[..., 0]\n        # Reconstruct original shape\n        beamforming_vector = np.reshape(beamforming_vector, shape[:-1])\n        eigenvalues = np.reshape(eigenvalues, shape[:-2])\n\n    return beamforming_vector, eigenvalues\n\n\ndef get_pca_vector", ['C12']),
 ('gev_swapped', E + 'beamformer.py', "            eigenvals, eigenvecs = solver(\n                target_psd_matrix[f, :, :], noise_psd_matrix[f, :, :]\n            )", "            eigenvals, eigenvecs = solver(\n                noise_psd_matrix[f, :, :], target_psd_matrix[f, :, :]\n            )", ['C12', 'C17']),
 ('ban_sqrt_missing', E + 'beamformer.py', "    nominator = np.sqrt(nominator)\n", "    nominator = nominator\n", ['C12']),
 ('apply_bf_no_conj', E + 'beamformer.py', "    return np.einsum('...a,...at->...t', vector.conj(), mix)", "    return np.einsum('...a,...at->...t', vector, mix)", ['C13']),
 ('greedy_column_not_masked', 'pb_bss/permutation_alignment.py', "                score_matrix[(*f, slice(None), j)] = neg_inf\n", "", ['C14', 'C15']),
 ('optimal_uses_min', 'pb_bss/permutation_alignment.py', "                if score > best_score:\n                    best_score = score\n                    best_permutation = permutation\n            mapping[(slice(None), *f)] = best_permutation", "                if -score > best_score:\n                    best_score = -score\n                    best_permutation = permutation\n            mapping[(slice(None), *f)] = best_permutation", ['C15']),
 ('inline_q_not_permuted', D + 'mixture_model_utils.py', "        quadratic_form = aligner.apply_mapping(quadratic_form, mapping)\n", "        quadratic_form = quadratic_form\n", ['C14', 'C08']),
 ('greedy_chain_not_composed', 'pb_bss/permutation_alignment.py', "        for f in range(1, F):\n            mapping[:, f] = mapping[mapping[:, f - 1], f]\n", "", ['C16']),
 ('ibm_argmin', E + 'mask_module.py', "    mask = np.expand_dims(np.argmax(mask, axis=source_axis), source_axis)", "    mask = np.expand_dims(np.argmin(mask, axis=source_axis), source_axis)", ['C18']),
 ('lorenz_ge', E + 'mask_module.py', "        _mask = power > threshold\n", "        _mask = power >= threshold\n", ['C18']),
 ('si_sdr_no_projection', 'pb_bss/evaluation/module_si_sdr.py', "    noise = estimation - projection\n", "    noise = estimation - reference\n", ['C19']),
 ('output_sxr_argmin_selection', 'pb_bss/evaluation/sxr_module.py', "    max_idx = np.argmax(mutual_power)\n", "    max_idx = np.argmin(mutual_power)\n", ['C19']),
 ('input_sxr_self_in_interference', 'pb_bss/evaluation/sxr_module.py', "                S[[n for n in range(K) if n != k], d],", "                S[[n for n in range(K)], d],", ['C19']),
 ('psd_mask_not_copied', E + 'beamformer.py', "        mask = np.copy(mask)\n", "        mask = np.asarray(mask)\n", ['C20', 'C10']),
 ('continued_fit_drops_estep', D + 'cacgmm.py', "            num_classes = initialization.cacg.covariance_eigenvectors.shape[-3]\n\n            model = initialization\n", "            num_classes = initialization.cacg.covariance_eigenvectors.shape[-3]\n\n            model = initialization\n            affiliation, quadratic_form, _ = model._predict(y)\n            model = None\n", ['C20']),
]


def build():
    out = []
    for name, rel, old, new, owners in MUTANTS:
        src = open(os.path.join(REPO, rel)).read()
        if src.count(old) != 1:
            print(f'!! {name}: pattern found {src.count(old)} times in {rel}')
            continue
        dst = src.replace(old, new)
        diff = ''.join(difflib.unified_diff(
            src.splitlines(True), dst.splitlines(True), 'a/' + rel, 'b/' + rel))
        path = os.path.join(ROOT, 'tools', 'mutants', f'hand_{name}.patch')
        open(path, 'w').write(diff)
        out.append((name, path, owners))
    return out


def main():
    muts = build()
    print(len(muts), 'hand mutants written')
    if '--run' in sys.argv:
        for name, path, owners in muts:
            r = subprocess.run([os.path.join(ROOT, 'tools', 'mutation_check.py'), path, *owners],
                               stdout=subprocess.PIPE, stderr=subprocess.STDOUT, text=True)
            for line in r.stdout.splitlines():
                if 'exit=' in line:
                    print(line)


if __name__ == '__main__':
    main()
