#!/venv/bin/python
"""Regenerate MANIFEST.json from the property modules that exist."""
import json
import os
import subprocess
import sys

ROOT = os.path.dirname(os.path.dirname(os.path.abspath(__file__)))
sys.path.insert(0, ROOT)

TECH = {
    'C01': ('Hypothesis-generated mixture configurations; validity predicate + independent log-domain Bayes rule (differential oracle)', '4 C01'),
    'C02': ('Hypothesis-generated EM histories; monotone-likelihood invariant with independently computed densities', '4 C02'),
    'C03': ('Hypothesis-generated separable scenes; arg-max/prototype validity predicate', '4 C03'),
    'C04': ('metamorphic property-based testing: per-point complex gain fields', '4 C04'),
    'C05': ('metamorphic property-based testing: class relabelling (all K! for K<=4), also at starts searched next to a decision boundary of the E-step (bisection between generated cases)', '4 C05'),
    'C06': ('differential property-based testing: stacked call vs stand-alone slices', '4 C06'),
    'C07': ('differential property-based testing vs scipy.stats / quadrature / high-precision normalisers', '4 C07'),
    'C08': ('differential property-based testing vs naive loop estimators and a reference EM; repetition law', '4 C08'),
    'C09': ('Hypothesis-generated degenerate data; parameter-domain validity predicate', '4 C09'),
    'C10': ('differential property-based testing vs loop-level PSD; metamorphic mask scaling / axis layouts', '4 C10'),
    'C11': ('property-based testing: constraint + optimality predicates, closed-form differentials', '4 C11'),
    'C12': ('property-based testing: Rayleigh-quotient predicate vs independent generalised eigenvalues', '4 C12'),
    'C13': ('differential property-based testing: wrapper vs composed primitives, stack vs slices; name grammar enumerated', '4 C13'),
    'C14': ('property-based testing + exhaustive small score grids: permutation/bijection invariant', '4 C14'),
    'C15': ('property-based testing + exhaustive enumeration: optimality vs brute force/LSA, round trip', '4 C15'),
    'C16': ('property-based testing: round trip up to global permutation; model-based transcription of DHTV/greedy', '4 C16'),
    'C17': ('property-based end-to-end testing on generated scenes with validity thresholds', '4 C17'),
    'C18': ('property-based testing: defining identities by loops + axis-move metamorphic relation', '4 C18'),
    'C19': ('property-based testing: algebraic identities + metamorphic scalings/permutations', '4 C19'),
    'C20': ('Hypothesis stateful (rule-based) machine vs fresh-trainer model; byte-identity of read-only inputs; generated call histories replayed against a pristine in-process copy of the library (differential)', '4 C20'),
}


def main():
    props = [json.loads(l) for l in open(os.path.join(ROOT, 'properties.jsonl'))]
    try:
        hook = subprocess.run(['git', '-C', os.environ.get('VERIF_REPO', '/repo'), 'log', '--format=%H', '--grep', '^verification hook'],
                              stdout=subprocess.PIPE, text=True).stdout.split()
    except Exception:
        hook = []
    checks, na = [], []
    for p in props:
        pid = p['id']
        path = os.path.join(ROOT, 'pbv', 'props', pid.lower() + '.py')
        if not os.path.exists(path):
            na.append({'property_id': pid, 'reason': 'check not built yet (work in progress; the technique applies, see DESIGN.md section 4)'})
            continue
        tech, ref = TECH[pid]
        checks.append({
            'property_id': pid,
            'quick_cmd': f'./check {pid} --tier quick',
            'thorough_cmd': f'./check {pid} --tier thorough',
            'evidence_file': f'/verif/evidence/{pid}.json',
            'replay_cmd_template': f'./check {pid} --replay {{path}}',
            'engine': 'pbv',
            'level_claimed': {
                'category': 'exploration',
                'text': 'Generated-input search (Hypothesis as generator, sharded over 16 cores, plus complete enumeration of the finite sub-domains the property names) against an explicit independent oracle; failures are shrunk to a replayable choice sequence. Finds violations, never proves absence.',
                'design_ref': f'DESIGN.md section {ref}',
            },
            'level_note': 'Trusted base: numpy/scipy/LAPACK arithmetic, the oracle code under pbv/oracles and in the property module, the stated tolerances; the search covers only the generated cases (counts and class histogram in the evidence file).',
            'technique': tech + (
                '; thorough tier adds coverage-guided fuzzing (atheris/libFuzzer) of the same oracle'
                if pid in ('C01', 'C10', 'C13', 'C14', 'C15', 'C16', 'C18', 'C19') else '') +
            '; value protocol (refilled caller buffers) on a share of the library calls',
        })
    manifest = {
        'version': 1,
        'setup_cmd': './setup.sh',
        'hooks': {
            'guard': 'PB_BSS_VERIF',
            'enable': 'environment variable PB_BSS_VERIF=1 set by ./check before pb_bss is imported from $VERIF_REPO (default /repo); pure Python, nothing to build',
            'baseline_off_cmd': './tools/baseline_off.py',
            'source_commits': hook,
            'add_only': True,
        },
        'engines': [{
            'name': 'pbv',
            'path': 'pbv/',
            'serves_properties': [c['property_id'] for c in checks],
            'kind_free_text': 'property-based testing engine: Hypothesis 6.168 as generator behind a recordable choice-sequence interface, own collect-then-shrink and replay, multiprocessing shards',
        }],
        'checks': checks,
        'not_applicable': na,
        'notes': 'All checks import pb_bss from the working tree of $VERIF_REPO (default /repo) at run time; VERIF_SEED selects the derived per-shard Hypothesis seeds. KNOWN_FINDINGS.txt lists fixed and known findings.',
    }
    with open(os.path.join(ROOT, 'MANIFEST.json'), 'w') as f:
        json.dump(manifest, f, indent=1)
        f.write('\n')
    try:
        import jsonschema
        jsonschema.validate(manifest, json.load(open('/root/.vp/MANIFEST.schema.json')))
        print('MANIFEST.json valid;', len(checks), 'checks,', len(na), 'not_applicable')
    except ImportError:
        print('MANIFEST.json written (jsonschema not available)')


if __name__ == '__main__':
    main()
