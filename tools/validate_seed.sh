#!/bin/bash
# tools/validate_seed.sh <dir with patch.diff demo.py> -> confirms: applies to current /repo tree, suite as green as before,
# demo fails with the change and passes without it.  Uses a scratch copy outside /repo and /verif.
src=$1
tmp=$(mktemp -d /tmp/pbv_seed_XXXX)
cp -r /repo $tmp/repo; rm -rf $tmp/repo/.git $tmp/repo/junit $tmp/repo/htmlcov
cd $tmp/repo
echo "== demo WITHOUT change"; PYTHONPATH=$tmp/repo /venv/bin/python -W ignore $src/demo.py >/dev/null 2>$tmp/err0; echo "exit=$?"
if ! patch -p1 -s --no-backup-if-mismatch < $src/patch.diff; then echo "PATCH DOES NOT APPLY"; rm -rf $tmp; exit 3; fi
echo "== demo WITH change"; PYTHONPATH=$tmp/repo /venv/bin/python -W ignore $src/demo.py >/dev/null 2>$tmp/err1; echo "exit=$?"; tail -2 $tmp/err1
echo "== suite WITH change"; VERIF_REPO=$tmp/repo /tmp/seed/tools/run_suite.py | tail -2
rm -rf $tmp
