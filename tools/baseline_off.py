#!/venv/bin/python
"""Run the repository's own test suite with the verification guard OFF and
compare the set of passing tests with /root/.vp/BASELINE.json (stable_pass).

Exit 0 iff every stable_pass test still passes.  Used as
MANIFEST.hooks.baseline_off_cmd and after every commit to /repo.
"""
import json
import os
import subprocess
import sys
import xml.etree.ElementTree as ET

HERE = os.path.dirname(os.path.abspath(__file__))
WORK = os.path.join(os.path.dirname(HERE), '.work')
REPO = os.environ.get('VERIF_REPO', '/repo')
BASELINE = os.environ.get('VERIF_BASELINE', '/root/.vp/BASELINE.json')


def main():
    os.makedirs(WORK, exist_ok=True)
    junit = os.path.join(WORK, 'baseline_off.junit.xml')
    if os.path.exists(junit):
        os.remove(junit)
    env = dict(os.environ)
    env.pop('PB_BSS_VERIF', None)
    env['PYTHONDONTWRITEBYTECODE'] = '1'
    cmd = ['/venv/bin/python', '-m', 'pytest', '-ra', '-q', '-p',
           'no:cacheprovider', '--timeout=900',
           '--continue-on-collection-errors', '--junitxml=' + junit]
    proc = subprocess.run(cmd, cwd=REPO, env=env, stdout=subprocess.PIPE,
                          stderr=subprocess.STDOUT, text=True)
    tail = proc.stdout.strip().splitlines()[-3:]
    passed = set()
    root = ET.parse(junit).getroot()
    for tc in root.iter('testcase'):
        bad = any(ch.tag in ('failure', 'error', 'skipped') for ch in tc)
        if not bad:
            passed.add(f"{tc.get('classname')}::{tc.get('name')}")
    print('pytest:', ' | '.join(tail))
    print('passed now:', len(passed))
    if os.path.exists(BASELINE):
        stable = set(json.load(open(BASELINE))['stable_pass'])
        missing = sorted(stable - passed)
        print('baseline stable_pass:', len(stable), 'missing:', len(missing))
        for m in missing[:40]:
            print('  MISSING', m)
        return 1 if missing else 0
    print('no BASELINE.json available; only reporting counts')
    return 0


if __name__ == '__main__':
    sys.exit(main())
