#!/bin/bash
# Runs every kept seeded change against the check of its property and writes seeded/MATRIX.txt
cd "$(dirname "$0")/.." || exit 2
out=seeded/MATRIX.txt; : > $out.tmp
for d in seeded/C??* ; do
  [ -f $d/patch.diff ] || continue
  case $d in *superseded*) continue;; esac
  id=$(basename $d | cut -c1-3)
  line=$(tools/mutation_check.py $d/patch.diff $id 2>&1 | grep "exit=" | head -1)
  echo "$(basename $d) -> $line" | tee -a $out.tmp
done
mv $out.tmp $out
grep -c detected $out; grep -v detected $out
