#!/bin/bash
# tools/seeded_matrix.sh [seed ...]  - runs every kept seeded change against the check of its
# property (quick tier) at each given VERIF_SEED (default: 1) and writes seeded/MATRIX.txt:
#   <change> -> detected k/n  [seeds that missed]
cd "$(dirname "$0")/.." || exit 2
seeds=${@:-1}
out=seeded/MATRIX.txt; : > $out.tmp
for d in seeded/C??* ; do
  [ -f $d/patch.diff ] || continue
  case $d in *superseded*) continue;; esac
  id=$(basename $d | cut -c1-3)
  hit=0; n=0; missed=""
  for s in $seeds; do
    n=$((n+1))
    if VERIF_SEED=$s tools/mutation_check.py $d/patch.diff $id 2>&1 | grep -q "exit=1 detected"; then hit=$((hit+1)); else missed="$missed $s"; fi
  done
  echo "$(basename $d) -> $id detected $hit/$n${missed:+  missed at seed(s):$missed}" | tee -a $out.tmp
done
mv $out.tmp $out
echo "changes: $(wc -l < $out)  detected at every seed: $(grep -c "detected \([0-9]*\)/\1" $out)"
grep -v "detected \([0-9]*\)/\1" $out
