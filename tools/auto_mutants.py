#!/venv/bin/python
"""Systematic first-order mutants of the library code in scope of the
properties, and the kill matrix of the checks.

    tools/auto_mutants.py gen                      # enumerate -> tools/mutants/auto_list.json
    tools/auto_mutants.py run [--par 8] [--only REGEX] [--limit N] [--redo]
                                                   # owner checks (quick tier) per mutant,
                                                   # first detection wins
                                                   # -> tools/mutants/auto_results.jsonl
    tools/auto_mutants.py tests [--par 4]          # repository test suite on the survivors
    tools/auto_mutants.py report

A mutant is one textual replacement at an AST node of /repo/pb_bss (operators:
arithmetic / comparison swap, guard removal (np.maximum, np.clip, abs, conj,
.real), finfo.tiny -> finfo.eps, numeric floor x1e6, axis -1 <-> -2, index
-1 <-> 0, einsum index swap, out-of-place -> in-place assignment, copy removal).
Each runs in its own scratch copy of the repository (mkdtemp, removed
afterwards); /repo itself is never touched.
"""
import ast
import json
import os
import re
import shutil
import subprocess
import sys
import tempfile
import time
from concurrent.futures import ThreadPoolExecutor

ROOT = os.path.dirname(os.path.dirname(os.path.abspath(__file__)))
REPO = os.environ.get('VERIF_REPO', '/repo')
LIST = os.environ.get('AUTO_LIST') or os.path.join(ROOT, 'tools', 'mutants', 'auto_list.json')
RESULTS = os.environ.get('AUTO_RESULTS') or os.path.join(ROOT, 'tools', 'mutants', 'auto_results.jsonl')

# first pass: the checks most likely to notice; `run --survivors --all-checks`
# takes the survivors through the remaining ones
DIST = ['C08', 'C01', 'C07', 'C09', 'C04']
DIST_REST = ['C02', 'C06', 'C05', 'C03', 'C14', 'C20']
FILES = {
    'pb_bss/distribution/cacgmm.py': DIST,
    'pb_bss/distribution/cwmm.py': DIST,
    'pb_bss/distribution/cbmm.py': DIST,
    'pb_bss/distribution/gmm.py': DIST,
    'pb_bss/distribution/vmfmm.py': DIST,
    'pb_bss/distribution/gcacgmm.py': DIST,
    'pb_bss/distribution/vmfcacgmm.py': DIST,
    'pb_bss/distribution/complex_angular_central_gaussian.py': DIST,
    'pb_bss/distribution/complex_watson.py': DIST,
    'pb_bss/distribution/complex_bingham.py': DIST,
    'pb_bss/distribution/complex_circular_symmetric_gaussian.py': DIST,
    'pb_bss/distribution/gaussian.py': DIST,
    'pb_bss/distribution/von_mises_fisher.py': DIST,
    'pb_bss/distribution/mixture_model_utils.py': DIST,
    'pb_bss/distribution/utils.py': DIST,
    'pb_bss/extraction/beamformer.py': ['C10', 'C11', 'C12', 'C13', 'C17', 'C20', 'C01'],
    'pb_bss/extraction/beamformer_wrapper.py': ['C13', 'C12', 'C17', 'C20'],
    'pb_bss/extraction/mask_module.py': ['C18', 'C20'],
    'pb_bss/permutation_alignment.py': ['C14', 'C15', 'C16', 'C17', 'C20', 'C08'],
    'pb_bss/evaluation/sxr_module.py': ['C19', 'C17', 'C20'],
    'pb_bss/evaluation/module_si_sdr.py': ['C19', 'C20'],
    'pb_bss/math/solve.py': ['C13', 'C11', 'C20'],
    'pb_bss/initializer/deflation.py': ['C01', 'C20'],
    'pb_bss/initializer/iid.py': ['C01', 'C20'],
    'pb_bss/initializer/deterministic.py': ['C01', 'C20'],
    'pb_bss/utils.py': DIST + ['C18', 'C13'],
}
# functions no property speaks about (samplers, alternative normalisers /
# solvers nobody calls, plotting, unfinished code)
SKIP_FUNCS = {
    'sample', 'sample_cacgmm', 'sample_complex_angular_central_gaussian',
    'log_norm_low_concentration', 'log_norm_medium_concentration',
    'log_norm_high_concentration', 'log_norm_tran_vu', 'find_eigenvalues_v2',
    'find_eigenvalues_sympy', 'grad_log_norm', 'grad_log_norm_symbolic',
    'eigenvalues_symbol', '_doctest_grad_log_norm_symbolic',
    'get_mvdr_vector_merl', 'get_lcmv_vector_souden', 'biased_binary_mask',
    'voiced_unvoiced_split_characteristic', '_calculate_score_matrix',
    'sample_random_mapping', '_estimate_mixture_weight_with_dirichlet_prior_concentration',
    '_phase_norm', '_frequency_norm', 'get_trainer_class_from_model',
    'parameter_from_dict', 'to_dict', 'from_dict', '__getattr__', 'stack_parameters',
    'deprecated', '_normalize', '_only_reshape', 'reshape', 'get_pca',
    'get_stft_center_frequencies', 'interleave', 'ideal_amplitude_mask',
    '_get_response_vector', 'distortionless_normalization', 'mvdr_snr_postfilter',
    'zero_degree_normalization', 'apply_online_beamforming_vector', 'pdf', 'norm',
    'BinaryGMM', 'BinaryGMMTrainer', 'get_energy',
}
# get_pca of pb_bss/utils.py is used by the Watson trainer: keep that one
KEEP = {('pb_bss/utils.py', 'get_pca'), ('pb_bss/extraction/beamformer.py', 'get_pca')}

ARITH = {ast.Add: ('+', '-'), ast.Sub: ('-', '+'), ast.Mult: ('*', '/'), ast.Div: ('/', '*')}
CMP = {ast.Lt: ('<', '<='), ast.LtE: ('<=', '<'), ast.Gt: ('>', '>='), ast.GtE: ('>=', '>'),
       ast.Eq: ('==', '!='), ast.NotEq: ('!=', '==')}


class Src:
    def __init__(self, text):
        self.text = text
        self.lines = text.split('\n')
        self.starts = [0]
        for l in self.lines:
            self.starts.append(self.starts[-1] + len(l) + 1)

    def off(self, lineno, col):
        # col offsets are utf-8 bytes; the files are ASCII where code is
        line = self.lines[lineno - 1]
        return self.starts[lineno - 1] + len(line.encode()[:col].decode(errors='ignore'))

    def seg(self, node):
        return self.text[self.off(node.lineno, node.col_offset):
                         self.off(node.end_lineno, node.end_col_offset)]


def enumerate_file(rel):
    text = open(os.path.join(REPO, rel)).read()
    src = Src(text)
    tree = ast.parse(text)
    out = []

    def add(op, a, b, new, lineno, note=''):
        old = text[a:b]
        if old == new:
            return
        out.append(dict(file=rel, line=lineno, op=op, start=a, end=b, old=old, new=new, note=note))

    def visit(node, func):
        if isinstance(node, (ast.FunctionDef, ast.ClassDef)):
            if node.name in SKIP_FUNCS and (rel, node.name) not in KEEP:
                return
            func = node.name
        # skip docstrings / plain string expressions
        if isinstance(node, ast.Expr) and isinstance(node.value, ast.Constant) and \
                isinstance(node.value.value, str):
            return
        if isinstance(node, ast.Assert):
            return      # assertions are input validation (explicit refusals)
        if isinstance(node, ast.If) and isinstance(node.test, ast.Name) and node.test.id == 'plot':
            return
        if func is not None:
            mutate(node, func)
        for ch in ast.iter_child_nodes(node):
            visit(ch, func)

    def span(node):
        return src.off(node.lineno, node.col_offset), src.off(node.end_lineno, node.end_col_offset)

    def mutate(node, func):
        note = func
        if isinstance(node, ast.BinOp) and type(node.op) in ARITH:
            a = span(node.left)[1]
            b = span(node.right)[0]
            tok, new = ARITH[type(node.op)]
            between = text[a:b]
            i = between.find(tok)
            if i >= 0 and '#' not in between:
                add('arith', a + i, a + i + len(tok), new, node.lineno, note)
        if isinstance(node, ast.Compare) and len(node.ops) == 1 and type(node.ops[0]) in CMP:
            a = span(node.left)[1]
            b = span(node.comparators[0])[0]
            tok, new = CMP[type(node.ops[0])]
            between = text[a:b]
            i = between.find(tok)
            if i >= 0:
                add('compare', a + i, a + i + len(tok), new, node.lineno, note)
        if isinstance(node, ast.Attribute) and node.attr == 'tiny':
            a, b = span(node)
            add('tiny->eps', b - 4, b, 'eps', node.lineno, note)
        if isinstance(node, ast.Attribute) and node.attr == 'real':
            a, b = span(node)
            add('drop.real', b - 5, b, '', node.lineno, note)
        if isinstance(node, ast.Call):
            fn = src.seg(node.func)
            a, b = span(node)
            if fn in ('np.maximum', 'np.minimum') and len(node.args) == 2 and not node.keywords:
                add('drop-guard', a, b, '(' + src.seg(node.args[0]) + ')', node.lineno, note)
            if fn == 'np.clip' and len(node.args) >= 1:
                add('drop-clip', a, b, '(' + src.seg(node.args[0]) + ')', node.lineno, note)
            if fn in ('np.abs', 'abs', 'np.conj', 'np.conjugate', 'np.copy', 'np.ascontiguousarray') \
                    and len(node.args) == 1 and not node.keywords:
                add('drop-' + fn.split('.')[-1], a, b, '(' + src.seg(node.args[0]) + ')',
                    node.lineno, note)
            if isinstance(node.func, ast.Attribute) and node.func.attr in ('conj', 'copy') \
                    and not node.args and not node.keywords:
                va, vb = span(node.func.value)
                add('drop-.' + node.func.attr, vb, b, '', node.lineno, note)
            if fn in ('np.array',) and len(node.args) == 1 and not node.keywords:
                fa, fb = span(node.func)
                add('array->asarray', fa, fb, 'np.asarray', node.lineno, note)
            if fn in ('np.einsum',) and node.args and isinstance(node.args[0], ast.Constant) \
                    and isinstance(node.args[0].value, str):
                s = node.args[0].value
                sa, sb = span(node.args[0])
                lhs, _, rhs = s.partition('->')
                ops = lhs.split(',')
                # swap the two last letters of an operand that ends in two letters
                for i, o in enumerate(ops):
                    letters = o.replace('...', '')
                    if len(letters) >= 2 and letters[-1] != letters[-2]:
                        o2 = o[:-2] + o[-1] + o[-2]
                        new = ','.join(ops[:i] + [o2] + ops[i + 1:]) + ('->' + rhs if _ else '')
                        add('einsum-swap', sa + 1, sb - 1, new, node.lineno, note)
                        break
                r = rhs.replace('...', '')
                if _ and len(r) >= 2 and r[-1] != r[-2]:
                    new = lhs + '->' + rhs[:-2] + rhs[-1] + rhs[-2]
                    add('einsum-swap-out', sa + 1, sb - 1, new, node.lineno, note)
            for kw in node.keywords:
                if kw.arg in ('axis', 'axis1', 'axis2') and isinstance(kw.value, ast.UnaryOp) and \
                        isinstance(kw.value.op, ast.USub) and \
                        isinstance(kw.value.operand, ast.Constant) and \
                        kw.value.operand.value in (1, 2):
                    ka, kb = span(kw.value)
                    add('axis', ka, kb, '-2' if kw.value.operand.value == 1 else '-1',
                        node.lineno, note)
                if kw.arg == 'keepdims' and isinstance(kw.value, ast.Constant) and \
                        kw.value.value is True and fn in ('np.amax', 'np.max', 'np.sum', 'np.linalg.norm'):
                    pass
        if isinstance(node, ast.Constant) and isinstance(node.value, float) and \
                0 < node.value <= 1e-3:
            a, b = span(node)
            add('floor-x1e6', a, b, repr(node.value * 1e6), node.lineno, note)
        if isinstance(node, ast.Subscript):
            sl = node.slice
            elts = sl.elts if isinstance(sl, ast.Tuple) else [sl]
            for e in elts:
                if isinstance(e, ast.UnaryOp) and isinstance(e.op, ast.USub) and \
                        isinstance(e.operand, ast.Constant) and e.operand.value == 1:
                    ea, eb = span(e)
                    add('index', ea, eb, '0', node.lineno, note)
                    break
                if isinstance(e, ast.Constant) and e.value == 0 and isinstance(node.ctx, ast.Load):
                    ea, eb = span(e)
                    add('index', ea, eb, '-1', node.lineno, note)
                    break
        if isinstance(node, ast.Assign) and len(node.targets) == 1 and \
                isinstance(node.targets[0], ast.Name) and isinstance(node.value, ast.BinOp) and \
                isinstance(node.value.left, ast.Name) and \
                node.value.left.id == node.targets[0].id and type(node.value.op) in ARITH:
            a, b = span(node)
            tok = ARITH[type(node.value.op)][0]
            add('inplace', a, b, f'{node.targets[0].id} {tok}= {src.seg(node.value.right)}',
                node.lineno, note)
        if isinstance(node, ast.BoolOp):
            vals = node.values
            a = span(vals[0])[1]
            b = span(vals[1])[0]
            tok, new = ('and', 'or') if isinstance(node.op, ast.And) else ('or', 'and')
            i = text[a:b].find(tok)
            if i >= 0:
                add('boolop', a + i, a + i + len(tok), new, node.lineno, note)
        if isinstance(node, ast.UnaryOp) and isinstance(node.op, ast.USub) and \
                not isinstance(node.operand, ast.Constant):
            a, b = span(node)
            add('drop-minus', a, a + 1, '', node.lineno, note)

    visit(tree, None)
    return out


def cmd_gen():
    allm = []
    for rel in FILES:
        ms = enumerate_file(rel)
        allm.extend(ms)
    for i, m in enumerate(allm):
        m['id'] = f'A{i:04d}'
    os.makedirs(os.path.dirname(LIST), exist_ok=True)
    json.dump(allm, open(LIST, 'w'), indent=0)
    by = {}
    for m in allm:
        by[m['op']] = by.get(m['op'], 0) + 1
    print(len(allm), 'mutants', by)


def load_results():
    res = {}
    if os.path.exists(RESULTS):
        for l in open(RESULTS):
            r = json.loads(l)
            res.setdefault(r['id'], {}).update(r)
    return res


def make_copy(m):
    tmp = tempfile.mkdtemp(prefix='pbv_auto_')
    dst = os.path.join(tmp, 'repo')
    shutil.copytree(REPO, dst, ignore=shutil.ignore_patterns(
        '.git', 'junit', 'htmlcov', '__pycache__', '.coverage', 'cache', 'examples', 'doc'))
    p = os.path.join(dst, m['file'])
    text = open(p).read()
    if text[m['start']:m['end']] != m['old']:
        # the file changed since the list was generated: look for the same
        # text on the same line
        lines = text.split('\n')
        line_start = sum(len(l) + 1 for l in lines[:m['line'] - 1])
        pos = text.find(m['old'], max(0, line_start - 5))
        if pos < 0 or pos > line_start + 400:
            shutil.rmtree(tmp, ignore_errors=True)
            return 'stale', None
        m = dict(m, start=pos, end=pos + len(m['old']))
    text = text[:m['start']] + m['new'] + text[m['end']:]
    try:
        ast.parse(text)
    except SyntaxError:
        shutil.rmtree(tmp, ignore_errors=True)
        return None, None
    open(p, 'w').write(text)
    return tmp, dst


def run_one(m, jobs, tier='quick'):
    tmp, dst = make_copy(m)
    if tmp == 'stale':
        return dict(id=m['id'], verdict='stale')
    if tmp is None:
        return dict(id=m['id'], verdict='syntax-error')
    t0 = time.time()
    try:
        env = dict(os.environ, VERIF_REPO=dst, VERIF_EVIDENCE_DIR=os.path.join(tmp, 'ev'),
                   VERIF_JOBS=str(jobs))
        tried = []
        todo_checks = list(FILES[m['file']])
        if os.environ.get('AUTO_ALL_CHECKS') and todo_checks[:len(DIST)] == DIST:
            todo_checks = DIST_REST
        for pid in todo_checks:
            r = subprocess.run([os.path.join(ROOT, 'check'), pid, '--tier', tier, '--no-regress'],
                               env=env, stdout=subprocess.PIPE, stderr=subprocess.STDOUT, text=True)
            tried.append(pid)
            if r.returncode == 1:
                sig = [l.strip() for l in r.stdout.splitlines() if l.startswith('--- ')][:2]
                return dict(id=m['id'], verdict='detected', by=pid, tried=tried, sig=sig,
                            wall=round(time.time() - t0, 1))
            if r.returncode == 2:
                err = [l for l in r.stdout.splitlines() if 'Error' in l or 'HARNESS' in l][-2:]
                return dict(id=m['id'], verdict='harness-error', by=pid, tried=tried, sig=err,
                            wall=round(time.time() - t0, 1))
        return dict(id=m['id'], verdict='survived', tried=tried, wall=round(time.time() - t0, 1))
    finally:
        shutil.rmtree(tmp, ignore_errors=True)


def cmd_run(args):
    par = int(args[args.index('--par') + 1]) if '--par' in args else 8
    only = re.compile(args[args.index('--only') + 1]) if '--only' in args else None
    limit = int(args[args.index('--limit') + 1]) if '--limit' in args else None
    tier = args[args.index('--tier') + 1] if '--tier' in args else 'quick'
    redo = '--redo' in args
    survivors_only = '--survivors' in args
    if '--all-checks' in args:
        os.environ['AUTO_ALL_CHECKS'] = '1'
    ms = json.load(open(LIST))
    done = load_results()
    todo = []
    for m in ms:
        key = f"{m['file']}:{m['line']}:{m['op']}:{m['note']}"
        if only and not only.search(key):
            continue
        prev = done.get(m['id'])
        if survivors_only:
            if not prev or prev.get('verdict') != 'survived':
                continue
        elif prev and not redo:
            continue
        todo.append(m)
    if limit:
        todo = todo[:limit]
    jobs = max(1, 16 // par)
    print(f'{len(todo)} mutants, {par} in parallel, {jobs} jobs each', flush=True)
    with ThreadPoolExecutor(par) as ex, open(RESULTS, 'a') as out:
        for m, r in zip(todo, ex.map(lambda m_: run_one(m_, jobs, tier), todo)):
            r.update(file=m['file'], line=m['line'], op=m['op'], func=m['note'],
                     old=m['old'][:60], new=m['new'][:60], tier=tier)
            out.write(json.dumps(r) + '\n')
            out.flush()
            print(r['id'], r['verdict'], r.get('by', ''), f"{m['file']}:{m['line']}", m['op'],
                  repr(m['old'][:30]), '->', repr(m['new'][:30]), flush=True)


def run_tests(m):
    tmp, dst = make_copy(m)
    if tmp is None:
        return dict(id=m['id'], tests='syntax-error')
    try:
        xml = os.path.join(tmp, 'junit.xml')
        r = subprocess.run(['/venv/bin/python', '-m', 'pytest', '-q', '-x', '-p', 'no:cacheprovider',
                            '--timeout=900', f'--junitxml={xml}'], cwd=dst,
                           stdout=subprocess.PIPE, stderr=subprocess.STDOUT, text=True,
                           env=dict(os.environ, OMP_NUM_THREADS='1'))
        tail = r.stdout.strip().splitlines()[-1] if r.stdout.strip() else ''
        return dict(id=m['id'], tests='pass' if r.returncode == 0 else 'fail', tests_tail=tail[:160])
    finally:
        shutil.rmtree(tmp, ignore_errors=True)


def cmd_tests(args):
    par = int(args[args.index('--par') + 1]) if '--par' in args else 4
    ms = {m['id']: m for m in json.load(open(LIST))}
    done = load_results()
    todo = [ms[i] for i, r in done.items() if r.get('verdict') == 'survived' and 'tests' not in r
            and i in ms]
    print(len(todo), 'survivors to run the repository suite on', flush=True)
    with ThreadPoolExecutor(par) as ex, open(RESULTS, 'a') as out:
        for m, r in zip(todo, ex.map(run_tests, todo)):
            out.write(json.dumps(r) + '\n')
            out.flush()
            print(r, flush=True)


def cmd_report():
    ms = {m['id']: m for m in json.load(open(LIST))}
    done = load_results()
    counts = {}
    for r in done.values():
        counts[r['verdict']] = counts.get(r['verdict'], 0) + 1
    print('mutants listed', len(ms), 'results', counts)
    by_check = {}
    for r in done.values():
        if r['verdict'] == 'detected':
            by_check[r['by']] = by_check.get(r['by'], 0) + 1
    print('first detecting check:', dict(sorted(by_check.items())))
    print('survivors (not detected by the owner checks):')
    for i, r in sorted(done.items()):
        if r['verdict'] in ('survived', 'harness-error'):
            print(f"  {i} {r['verdict']} tests={r.get('tests', '?')} {r['file']}:{r['line']} "
                  f"[{r['func']}] {r['op']}: {r['old']!r} -> {r['new']!r}")


if __name__ == '__main__':
    c = sys.argv[1] if len(sys.argv) > 1 else ''
    if c == 'gen':
        cmd_gen()
    elif c == 'run':
        cmd_run(sys.argv[2:])
    elif c == 'tests':
        cmd_tests(sys.argv[2:])
    elif c == 'report':
        cmd_report()
    else:
        print(__doc__)
        sys.exit(2)
