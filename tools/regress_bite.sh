#!/bin/bash
# tools/regress_bite.sh - for every "fixed:" entry of KNOWN_FINDINGS.txt: reverse the fix on a scratch copy of /repo (outside /repo and /verif, removed afterwards)
# and count the committed regression replays of the owning property that report a violation there (must be >= 1 for every fix).
cd "$(dirname "$0")/.." || exit 2; root=$(pwd); repo=${VERIF_REPO_SRC:-/repo}
grep "^fixed:" KNOWN_FINDINGS.txt | awk '{print $2, $3}' | sed 's/property=//' | while read pid h; do
  t=$(mktemp -d /tmp/pbv_rb_XXXX); (cd $repo && git archive HEAD pb_bss | tar -x -C $t)
  if [ $h = 4147d5e ]; then (cd $t && patch -p1 -R -s < $root/tools/mutants/revert_0bdea19.patch); fi
  (cd $t && patch -p1 -R -s < $root/tools/mutants/revert_$h.patch) || { echo "$h: reverse does not apply"; rm -rf $t; continue; }
  n=0
  for f in regress/$pid/*.json; do
    if VERIF_REPO=$t ./check $pid --replay "$f" 2>/dev/null | grep -q "^VIOLATION"; then n=$((n+1)); fi
  done
  echo "$h $pid: $n regress replay(s) report the reverted fix"
  rm -rf $t
done
