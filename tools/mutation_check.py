#!/venv/bin/python
"""Sensitivity check: apply a patch to a scratch copy of the repository and run
checks against it.

    tools/mutation_check.py PATCH [--reverse] ID [ID ...] [-- extra check args]

The copy lives in a mkdtemp directory outside /repo and /verif and is removed
afterwards.  Prints one line per check:  <patch> <ID> exit=<code> detected|MISSED
"""
import os
import shutil
import subprocess
import sys
import tempfile

ROOT = os.path.dirname(os.path.dirname(os.path.abspath(__file__)))
REPO = os.environ.get('VERIF_REPO', '/repo')


def main():
    args = sys.argv[1:]
    extra = []
    if '--' in args:
        i = args.index('--')
        args, extra = args[:i], args[i + 1:]
    reverse = '--reverse' in args
    args = [a for a in args if a != '--reverse']
    patch, ids = args[0], args[1:]
    tmp = tempfile.mkdtemp(prefix='pbv_mut_')
    dst = os.path.join(tmp, 'repo')
    try:
        shutil.copytree(REPO, dst, ignore=shutil.ignore_patterns(
            '.git', 'junit', 'htmlcov', '__pycache__', '.coverage', 'cache'))
        cmd = ['patch', '-p1', '-s', '--no-backup-if-mismatch', '-i', os.path.abspath(patch)]
        if reverse:
            cmd.insert(1, '-R')
        r = subprocess.run(cmd, cwd=dst, stdout=subprocess.PIPE, stderr=subprocess.STDOUT, text=True)
        if r.returncode != 0:
            print(f'{patch}: PATCH DOES NOT APPLY\n{r.stdout}')
            return 3
        env = dict(os.environ, VERIF_REPO=dst,
                   VERIF_EVIDENCE_DIR=os.path.join(tmp, 'evidence'))
        status = 0
        for pid in ids:
            r = subprocess.run([os.path.join(ROOT, 'check'), pid, *extra], env=env,
                               stdout=subprocess.PIPE, stderr=subprocess.STDOUT, text=True)
            lines = [l for l in r.stdout.splitlines() if l.startswith(('---', 'VIOLATION', 'HARNESS', '    '))]
            verdict = 'detected' if r.returncode == 1 else ('HARNESS-ERROR' if r.returncode == 2 else 'MISSED')
            print(f'{os.path.relpath(patch)} {pid} exit={r.returncode} {verdict}')
            for l in lines[:8]:
                print('   ', l[:200])
            if r.returncode != 1:
                status = 1
        return status
    finally:
        shutil.rmtree(tmp, ignore_errors=True)


if __name__ == '__main__':
    sys.exit(main())
