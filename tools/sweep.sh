#!/bin/bash
# tools/sweep.sh <tier> <seed> [<seed> ...]   - run every check, report anything that is not exit 0
# Evidence of sweep runs goes to a scratch directory (the committed evidence is
# written by plain ./check runs only).
cd "$(dirname "$0")/.." || exit 2
tier=$1; shift
export VERIF_EVIDENCE_DIR=${VERIF_EVIDENCE_DIR:-$(pwd)/.work/sweep_evidence}
status=0
for seed in "$@"; do
  for i in $(seq -w 1 20); do
    out=$(VERIF_SEED=$seed ./check C$i --tier $tier 2>&1); rc=$?
    line=$(echo "$out" | grep -v KNOWN-FINDING | tail -1)
    if [ $rc -ne 0 ]; then status=1; echo "!! seed=$seed C$i exit=$rc"; echo "$out" | grep -A2 '^---\|HARNESS' | head -20; fi
    echo "seed=$seed $line"
  done
done
exit $status
