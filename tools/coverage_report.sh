#!/bin/bash
# tools/coverage_report.sh [tier] [ID ...]  - line/branch coverage of /repo/pb_bss reached by the
# checks (diagnostic for generator blind spots; not part of any registered check).
# Scratch data lives in a fresh temporary directory which is removed at the end;
# the text report goes to stdout.
cd "$(dirname "$0")/.." || exit 2
tier=${1:-quick}; shift
ids=${@:-$(seq -f 'C%02g' 1 20)}
work=$(mktemp -d /tmp/pbv_cov.XXXXXX)
cat > "$work/rc" <<EOF
[run]
concurrency = multiprocessing
parallel = true
branch = true
sigterm = true
source = ${VERIF_REPO:-/repo}/pb_bss
data_file = $work/data
[report]
show_missing = true
skip_covered = true
EOF
export OMP_NUM_THREADS=1 PYTHONHASHSEED=0 PB_BSS_VERIF=1
export PYTHONPATH=${VERIF_REPO:-/repo}:$(pwd):$(pwd)/.deps VERIF_EVIDENCE_DIR=$work/ev
for id in $ids; do
  /venv/bin/python -m coverage run --rcfile="$work/rc" -m pbv.runner "$id" --tier "$tier" 2>&1 | grep -v KNOWN | tail -1 >&2
done
/venv/bin/python -m coverage combine --rcfile="$work/rc" -q
/venv/bin/python -m coverage report --rcfile="$work/rc"
rm -rf "$work"
