#!/bin/bash
# Offline setup: make sure the interpreter that has the repository's
# dependencies (/venv) can import hypothesis (and jsonschema for the evidence
# self-check).  Nothing is fetched from a network.
HERE="$(cd "$(dirname "${BASH_SOURCE[0]}")" && pwd)"
PY=/venv/bin/python
WHEELS=/opt/veriftools/wheels
need=""
for pkg in hypothesis jsonschema; do
  if ! PYTHONPATH="$HERE/.deps" "$PY" -c "import $pkg" >/dev/null 2>&1; then need="$need $pkg"; fi
done
if [ -n "$need" ]; then
  /venv/bin/pip install --no-index --find-links "$WHEELS" --target "$HERE/.deps" $need || {
    echo "setup: could not install$need from $WHEELS" >&2
    # hypothesis is mandatory, jsonschema is optional
    PYTHONPATH="$HERE/.deps" "$PY" -c "import hypothesis" || exit 1
  }
fi
# optional: atheris (coverage-guided part of the thorough tier); the checks
# work without it and say so in their evidence
if ! PYTHONPATH="$HERE/.deps" "$PY" -c "import atheris" >/dev/null 2>&1; then
  /venv/bin/pip install --no-index --find-links "$WHEELS" --target "$HERE/.deps" atheris >/dev/null 2>&1 || \
    echo "setup: atheris not installed (thorough tier runs without its coverage-guided part)" >&2
fi
mkdir -p "$HERE/.work" "$HERE/evidence" "$HERE/replay"
PYTHONPATH="$HERE/.deps:${VERIF_REPO:-/repo}" "$PY" -W ignore -c "import hypothesis, numpy, scipy, pb_bss; print('setup ok: hypothesis', hypothesis.__version__, 'numpy', numpy.__version__)"
