"""Adapter layer and generators for the seven mixture models.

A :class:`Case` bundles everything one fit needs.  The adapter hides the
differences between the trainers (argument names, the two-stream integration
models) so that the property modules C01-C06, C08, C09 and C20 can be written
once for all models.
"""
import copy

import numpy as np
import scipy.special

from pbv import gen
from pbv.core import Rejected, Violation

KINDS = ['cacgmm', 'cwmm', 'cbmm', 'gmm', 'vmfmm', 'gcacgmm', 'vmfcacgmm']
COMPLEX_KINDS = ['cacgmm', 'cwmm', 'cbmm']
INTEGRATION = ['gcacgmm', 'vmfcacgmm']
DIRECTIONAL = ['cacgmm', 'cwmm', 'cbmm', 'vmfmm', 'gcacgmm', 'vmfcacgmm']

# exceptions with which a trainer may refuse an input explicitly
EXPLICIT = (AssertionError, ValueError, np.linalg.LinAlgError, RuntimeError,
            NotImplementedError, TypeError, FloatingPointError,
            ZeroDivisionError, OverflowError, IndexError)


def explicit_refusal(e):
    """Exceptions with which the library (or the numerical libraries it
    calls) refuses an input in so many words: assertions, LinAlgError,
    scikit-learn's 'ill-defined empirical covariance', the Bingham solver's
    infeasible start.  Programming errors (TypeError, AttributeError,
    IndexError, broadcasting / einsum ValueErrors ...) are not refusals."""
    if isinstance(e, (AssertionError, np.linalg.LinAlgError, RuntimeError,
                      NotImplementedError, FloatingPointError)):
        return True
    if isinstance(e, ValueError):
        msg = str(e)
        return ('ill-defined empirical covariance' in msg
                or 'infeasible' in msg or 'x0' in msg
                or msg.startswith('(array(')
                or 'array must not contain infs or NaNs' in msg
                or 'Residuals are not finite' in msg)
    return False


class Case:
    def __init__(self, **kw):
        self.kind = None
        self.lead = ()
        self.K = 2
        self.D = 3
        self.N = 10
        self.E = 3
        self.y = None          # (*lead, N, D)   [integration: (F, T, D)]
        self.emb = None        # integration models: (F, T, E)
        self.init = None       # (*lead, K, N) or None -> num_classes
        self.np_seed = 0
        self.iterations = 1
        self.opts = {}         # keyword arguments of fit
        self.trainer_kwargs = {}
        self.labels = None     # ground truth labels (*lead, N) if any
        self.meta = {}
        self.__dict__.update(kw)

    def copy(self, **kw):
        c = copy.copy(self)
        c.opts = dict(self.opts)
        c.trainer_kwargs = dict(self.trainer_kwargs)
        c.meta = dict(self.meta)
        c.__dict__.update(kw)
        return c

    @property
    def aff_shape(self):
        return (*self.lead, self.K, self.N)

    def describe(self):
        o = {}
        for k, v in self.opts.items():
            if isinstance(v, np.ndarray):
                o[k] = f'array{v.shape}:{v.dtype}'
            elif hasattr(v, 'calculate_mapping'):
                o[k] = type(v).__name__
            else:
                o[k] = v
        return dict(kind=self.kind, lead=list(self.lead), K=self.K, D=self.D,
                    N=self.N, iterations=self.iterations,
                    dtype=str(self.y.dtype) if self.y is not None else None,
                    init=self.meta.get('init'), data=self.meta.get('data'),
                    layout=self.meta.get('layout'), defaults=self.meta.get('defaults'),
                    norms=self.meta.get('norms', 'any'),
                    scale_exp=self.meta.get('scale_exp'), opts=o,
                    trainer=self.trainer_kwargs or None)


# --------------------------------------------------------------------------
# library access
# --------------------------------------------------------------------------

def trainer_cls(kind):
    import pb_bss.distribution as dist
    return {
        'cacgmm': dist.CACGMMTrainer, 'cwmm': dist.CWMMTrainer,
        'cbmm': dist.CBMMTrainer, 'gmm': dist.GMMTrainer,
        'vmfmm': dist.VMFMMTrainer, 'gcacgmm': dist.GCACGMMTrainer,
        'vmfcacgmm': dist.VMFCACGMMTrainer,
    }[kind]


def make_trainer(case):
    return trainer_cls(case.kind)(**case.trainer_kwargs)


# defaults of the fit / fit_predict signatures as documented (hard-coded on
# purpose: the reference, not read from the code under test)
DOCUMENTED_DEFAULTS = {
    'cacgmm': dict(weight_constant_axis=(-1,), hermitize=True, covariance_norm='eigenvalue',
                   affiliation_eps=1e-10, eigenvalue_floor=1e-10),
    'cwmm': dict(weight_constant_axis=(-1,), affiliation_eps=0),
    'cbmm': dict(weight_constant_axis=(-1,), affiliation_eps=0),
    # (GMMTrainer.fit and .fit_predict document different defaults for
    # weight_constant_axis: never left out)
    'gmm': dict(covariance_type='full'),
    'vmfmm': dict(weight_constant_axis=(-1,), min_concentration=1e-10, max_concentration=500),
    'gcacgmm': dict(hermitize=True, covariance_norm='eigenvalue', eigenvalue_floor=1e-10,
                    covariance_type='spherical', affiliation_eps=1e-10,
                    weight_constant_axis=(-1,), spatial_weight=1.0, spectral_weight=1.0,
                    inline_permutation_alignment=False),
    'vmfcacgmm': dict(min_concentration=1e-10, max_concentration=500, hermitize=True,
                      covariance_norm='eigenvalue', eigenvalue_floor=1e-10,
                      affiliation_eps=1e-10, weight_constant_axis=(-1,), spatial_weight=1.0,
                      spectral_weight=1.0, inline_permutation_alignment=False),
}


def _is_default(kind, key, value):
    doc = DOCUMENTED_DEFAULTS.get(kind, {})
    if key not in doc:
        return False
    dv = doc[key]
    if isinstance(value, (list, tuple)) or isinstance(dv, tuple):
        try:
            return tuple(value) == tuple(dv)
        except TypeError:
            return False
    return type(value) is type(dv) and value == dv or \
        (isinstance(value, (int, float)) and isinstance(dv, (int, float))
         and not isinstance(value, bool) and not isinstance(dv, bool) and value == dv)


def _fit_args(case, init, iterations):
    kw = dict(case.opts)
    # options the case leaves to the library's documented default (the harness
    # keeps the explicit value in case.opts for its oracles)
    for key in getattr(case, 'omit', ()):
        if key in kw and _is_default(case.kind, key, kw[key]):
            del kw[key]
    kw['iterations'] = case.iterations if iterations is None else iterations
    if init is None:
        init = case.init
    if isinstance(init, np.ndarray) or init is not None:
        kw['initialization'] = init
    else:
        kw['num_classes'] = case.K
    if case.kind in INTEGRATION:
        args = dict(observation=case.y, embedding=case.emb)
    else:
        args = dict(y=case.y)
    return args, kw


def fit(case, trainer=None, init=None, iterations=None, method='fit'):
    """Raw call (exceptions propagate)."""
    trainer = trainer if trainer is not None else make_trainer(case)
    args, kw = _fit_args(case, init, iterations)
    if 'num_classes' in kw:
        np.random.seed(case.np_seed)
    return getattr(trainer, method)(**args, **kw)


def predict(model, case, y=None, emb=None, with_mask=True):
    y = case.y if y is None else y
    if case.kind in INTEGRATION:
        emb = case.emb if emb is None else emb
        return model.predict(observation=y, embedding=emb)
    if case.kind == 'cacgmm' and with_mask and \
            case.opts.get('source_activity_mask') is not None:
        return model.predict(
            y, source_activity_mask=case.opts['source_activity_mask'])
    return model.predict(y)


def normalize(y):
    n = np.linalg.norm(y, axis=-1, keepdims=True)
    return y / np.where(n == 0, 1, n)


def component_log_pdf(model, case, y=None, emb=None):
    """log p_k(y_n) from the component distributions' public log_pdf,
    shape (*lead, K, N); for the integration models the exponent-weighted sum
    of the two streams."""
    y = case.y if y is None else y
    kind = case.kind
    if kind == 'cacgmm':
        return model.cacg.log_pdf(y[..., None, :, :])
    if kind == 'cwmm':
        return model.complex_watson.log_pdf(normalize(y)[..., None, :, :])
    if kind == 'cbmm':
        return model.complex_bingham.log_pdf(normalize(y)[..., None, :, :])
    if kind == 'gmm':
        return model.gaussian.log_pdf(y[..., None, :, :])
    if kind == 'vmfmm':
        return model.vmf.log_pdf(y[..., None, :, :])
    emb = case.emb if emb is None else emb
    F, T, D = y.shape
    spatial = model.cacg.log_pdf(y[..., None, :, :])       # (F, K, T)
    second = model.gaussian if kind == 'gcacgmm' else model.vmf
    e = emb.reshape(1, F * T, emb.shape[-1])
    if kind == 'vmfcacgmm':
        e = normalize(e)
    spectral = second.log_pdf(e)                           # (K, F*T)
    K = spectral.shape[0]
    spectral = spectral.reshape(K, F, T).transpose(1, 0, 2)
    return model.spatial_weight * spatial + model.spectral_weight * spectral


def weight_broadcast(model, case):
    """Stored mixture weights, broadcastable against (*lead, K, N)."""
    w = np.asarray(model.weight)
    if case.kind in INTEGRATION:
        axis = tuple(model.weight_constant_axis)
        if w.ndim == 0:
            return w
        ndim = w.ndim + len(axis)
        assert ndim == 3, (w.shape, axis)
        shape = list(w.shape)
        for p in sorted(a % 3 for a in axis):
            shape.insert(p, 1)
        return w.reshape(shape)
    return w


def bayes_posterior(model, case, mask=None, log_pdf=None):
    lp = component_log_pdf(model, case) if log_pdf is None else log_pdf
    lp = np.asarray(lp, dtype=np.float64)
    pi = np.broadcast_to(
        np.asarray(weight_broadcast(model, case), dtype=np.float64), lp.shape)
    b = pi if mask is None else pi * mask
    with np.errstate(all='ignore'):
        m = np.max(np.where(b > 0, lp, -np.inf), axis=-2, keepdims=True)
        m = np.where(np.isfinite(m), m, 0.0)
        num = b * np.exp(lp - m)
        den = np.sum(num, axis=-2, keepdims=True)
        post = np.where(den > 0, num / np.where(den > 0, den, 1), 0.0)
    return post


def mixture_log_likelihood(log_pdf, weight, saliency=None):
    """sum_n s_n log sum_k pi_k p_k(y_n), over everything."""
    lse = scipy.special.logsumexp(
        log_pdf, b=np.broadcast_to(weight, log_pdf.shape), axis=-2)
    if saliency is not None:
        lse = lse * saliency
    return float(np.sum(lse))


def params(model, case):
    """gauge-free parameter dictionary (arrays)"""
    kind = case.kind
    out = {'weight': np.asarray(model.weight, dtype=np.float64)}

    def cacg_cov(c):
        return np.einsum('...wx,...x,...zx->...wz', c.covariance_eigenvectors,
                         c.covariance_eigenvalues,
                         c.covariance_eigenvectors.conj())
    if kind == 'cacgmm':
        out['cacg_covariance'] = cacg_cov(model.cacg)
    elif kind == 'cwmm':
        m = model.complex_watson.mode
        out['watson_projector'] = np.einsum('...d,...e->...de', m, m.conj())
        out['watson_concentration'] = np.asarray(
            model.complex_watson.concentration, dtype=np.float64)
    elif kind == 'cbmm':
        b = model.complex_bingham
        out['bingham_matrix'] = np.einsum(
            '...wx,...x,...zx->...wz', b.covariance_eigenvectors,
            b.covariance_eigenvalues, b.covariance_eigenvectors.conj())
    elif kind == 'gmm':
        out['mean'] = np.asarray(model.gaussian.mean)
        out['covariance'] = np.asarray(model.gaussian.covariance)
    elif kind == 'vmfmm':
        out['vmf_mean'] = np.asarray(model.vmf.mean)
        out['vmf_concentration'] = np.asarray(model.vmf.concentration)
    elif kind == 'gcacgmm':
        out['cacg_covariance'] = cacg_cov(model.cacg)
        out['mean'] = np.asarray(model.gaussian.mean)
        out['covariance'] = np.asarray(model.gaussian.covariance)
    elif kind == 'vmfcacgmm':
        out['cacg_covariance'] = cacg_cov(model.cacg)
        out['vmf_mean'] = np.asarray(model.vmf.mean)
        out['vmf_concentration'] = np.asarray(model.vmf.concentration)
    return out


# class axis (counted from the end) of every entry of params()
PARAM_CLASS_AXIS = {
    'cacg_covariance': -3, 'watson_projector': -3, 'watson_concentration': -1,
    'bingham_matrix': -3, 'mean': -2, 'covariance': None, 'vmf_mean': -2,
    'vmf_concentration': -1,
}


def covariance_class_axis(case):
    ct = case.opts.get('covariance_type',
                       'spherical' if case.kind == 'gcacgmm' else 'full')
    return {'full': -3, 'diagonal': -2, 'spherical': -1}[ct]


def weight_class_axis(model, case):
    """axis of the class dimension in the stored weight, or None (scalar /
    uniform over classes)."""
    w = np.asarray(model.weight)
    if case.kind in INTEGRATION:
        axis = tuple(model.weight_constant_axis)
        if -2 in [a if a < 0 else a - 3 for a in axis]:
            return None
        # stored weight has the non-tied axes in order (F?, K, T?)
        kept = [a for a in (-3, -2, -1) if a not in
                [b if b < 0 else b - 3 for b in axis]]
        return kept.index(-2) - len(kept)
    if w.ndim >= 2 and w.shape[-2] == case.K:
        return -2
    return None


# --------------------------------------------------------------------------
# generators
# --------------------------------------------------------------------------

def real_kind(kind):
    return kind in ('gmm', 'vmfmm')


def relayout(a, layout):
    """the same array values behind another memory layout"""
    if layout == 'transposed-view' and a.ndim >= 2:
        # as users obtain it from an (F, D, T) STFT tensor: Y.transpose(0, 2, 1)
        return np.ascontiguousarray(np.swapaxes(a, -1, -2)).swapaxes(-1, -2)
    if layout == 'fortran':
        return np.asfortranarray(a)
    if layout == 'strided':
        big = np.zeros((*a.shape[:-1], 2 * a.shape[-1]), dtype=a.dtype)
        view = big[..., ::2]
        view[...] = a
        return view
    return a


def cluster_data(rng, lead, K, N, D, complex_, spread):
    """K clusters per slice so that EM has structure; returns data and
    labels.  spread: relative within-cluster perturbation."""
    shape = (*lead, N, D)
    labels = rng.integers(0, K, size=(*lead, N))
    if complex_:
        protos = gen.cnormal(rng, (*lead, K, D))
        noise = gen.cnormal(rng, shape)
    else:
        protos = rng.normal(size=(*lead, K, D)) * 2
        noise = rng.normal(size=shape)
    base = np.take_along_axis(protos, labels[..., None], axis=-2)
    if complex_:
        gains = gen.cnormal(rng, (*lead, N, 1))
        y = base * gains + spread * noise
    else:
        y = base + spread * noise
    return y, labels


def apply_degeneracy(d, rng, y, pattern):
    """pattern in none / zero-frames / all-zero / duplicates / rank-deficient;
    affected frame indices are drawn structurally."""
    *lead, N, D = y.shape
    y = y.copy()
    if pattern == 'zero-frames':
        idx = d.subset(N, 1, max(1, N // 2))
        y[..., idx, :] = 0
    elif pattern == 'all-zero':
        y[...] = 0
    elif pattern == 'zero-slice':
        # one index of the leading axes is silent (e.g. a DC bin), the others
        # carry regular data; without leading axes: all zero
        if lead:
            idx = tuple(d.int(0, n - 1) for n in lead)
            y[idx] = 0
        else:
            y[...] = 0
    elif pattern == 'duplicates':
        idx = d.subset(N, 1, N)
        src = d.int(0, N - 1)
        y[..., idx, :] = y[..., [src], :]
    elif pattern == 'rank-deficient':
        r = min(d.int(1, max(1, D - 1)), N)
        basis = y[..., :r, :].copy()
        coef = rng.normal(size=(*lead, N, r))
        if np.iscomplexobj(y):
            coef = coef + 1j * rng.normal(size=(*lead, N, r))
        y = np.einsum('...nr,...rd->...nd', coef, basis)
    return y


def make_init(d, rng, case, kind_of_init, labels=None):
    lead, K, N = case.lead, case.K, case.N
    shape = (*lead, K, N)
    if kind_of_init == 'dirichlet':
        a = rng.dirichlet(np.ones(K), size=(*lead, N))
        a = np.moveaxis(a, -1, -2)
        a = (a + 1e-3) / (1 + K * 1e-3)
        return a
    if kind_of_init == 'blurred':
        assert labels is not None
        beta = d.float(0, 0.45)
        if beta < 1e-6:
            # no denormal-scale affiliations (a class whose only regular
            # frames weigh 1e-300 is not a class with mass)
            beta = 0.0
        onehot = (labels[..., None, :] == np.arange(K)[:, None]).astype(float)
        return (1 - beta) * onehot + beta * (1 - onehot) / max(K - 1, 1) \
            if K > 1 else onehot
    if kind_of_init == 'onehot':
        lab = rng.integers(0, K, size=(*lead, N))
        if N >= K:
            # every class non-empty in every slice
            first = np.stack([rng.permutation(N)[:K]
                              for _ in range(int(np.prod(lead, dtype=int)))])
            first = first.reshape(*lead, K)
            for k in range(K):
                np.put_along_axis(lab, first[..., k:k + 1], k, axis=-1)
        return (lab[..., None, :] == np.arange(K)[:, None]).astype(float)
    if kind_of_init == 'uniform':
        a = rng.uniform(0.05, 1, size=shape)
        return a / a.sum(-2, keepdims=True)
    raise AssertionError(kind_of_init)


def weight_axis_options(kind, nlead):
    if kind in INTEGRATION:
        return [(-1,), (-3,), (-3, -1), (-3, -2, -1), (-2, -1)]
    opts = [(-1,), -1, [-1], -2]
    if nlead >= 1:
        opts += [(-3,), -3, (-3, -1)]
    return opts


def draw_case(d, kinds=None, *, degenerate=False, general_position=False,
              max_lead=2, max_K=6, min_K=1, max_D=8, max_N=40, options=True,
              allow_num_classes=True, single_precision=True,
              allow_aligner=True, max_iterations=5, allow_scale=True,
              init_kinds=('dirichlet', 'onehot', 'uniform', 'blurred'),
              cbmm_max_D=6, allow_mask=True, force_lead=None,
              positive_saliency_only=False, regular_share=True,
              stable_only=False, force_aligner=False, long_share=0):
    """Generic generator of a mixture-model fit.

    profile 'regular': clustered data in general position, double precision,
    unit scale, soft start, positive saliency, no activity mask - every
    option is still drawn.  A library exception on such a case is a
    violation, on a 'wild' case it may be an explicit refusal."""
    kind = d.choice(kinds or KINDS)
    case = Case(kind=kind)
    integ = kind in INTEGRATION
    profile = 'wild'
    if regular_share and (not degenerate or d.int(0, 2) != 0):
        profile = 'regular'
    if profile == 'regular' and degenerate:
        degenerate = False
        allow_scale = False
        single_precision = False
        allow_mask = False
        positive_saliency_only = True
        init_kinds = tuple(k for k in init_kinds if k != 'onehot') or init_kinds
    case.meta['profile'] = profile
    want_aligner = (allow_aligner and options and kind in COMPLEX_KINDS
                    and force_lead is None and (force_aligner or d.int(0, 3) == 0))
    if integ:
        lead = (d.int(1, 5),)
    elif force_lead is not None:
        lead = tuple(force_lead)
    elif want_aligner:
        lead = (2 * d.int(0, 3) + 1,)
    else:
        lead = tuple(d.int(1, 3) for _ in range(d.int(0, max_lead)))
    case.lead = lead
    if kind == 'cacgmm' and not allow_num_classes:
        min_K = max(min_K, 2)   # the array start asserts K > 1
    case.K = d.int(max(min_K, 2), min(max_K, 4)) if want_aligner else \
        d.int(min_K, max_K)
    maxD = min(max_D, cbmm_max_D) if kind == 'cbmm' else max_D
    case.D = d.int(2, maxD)
    case.E = d.int(2, 6) if integ else case.D
    complex_ = not real_kind(kind)
    if general_position:
        base = 4 * case.K * case.D
        case.N = d.int(base, base + 20)
    elif profile == 'regular' and regular_share:
        case.N = d.int(min(2 * case.D + 2, max_N), max(max_N, 2 * case.D + 2))
    else:
        case.N = d.int(1, max_N)
    seed = d.seed()
    rng = np.random.default_rng(seed)
    # decisions added later draw from a second stream derived from the same
    # recorded seed, so that committed replays keep their meaning
    aux = np.random.default_rng([seed, 777])
    # decisions of generator epoch 3 (their own stream, see core.GENERATOR_EPOCH)
    aux3 = np.random.default_rng([seed, 779])
    epoch3 = getattr(d, 'epoch', 3) >= 3
    if epoch3 and long_share and not general_position and \
            int(aux3.integers(0, long_share)) == 0:
        # utterance-sized numbers of frames (hundreds per class)
        case.N = int(case.N * aux3.integers(6, 13))
        case.meta['frames'] = 'many'
    lead_, K, N, D = case.lead, case.K, case.N, case.D

    # ---- data
    spread = d.choice([0.05, 0.3, 1.0])
    if stable_only and spread == 0.05 and kind in ('cwmm', 'vmfmm', 'vmfcacgmm'):
        # tightly clustered directions drive the concentration to its clipping
        # bound, where the metamorphic checks do not judge (a third of the
        # cases were lost that way)
        spread = 0.3
    y, labels = cluster_data(rng, lead_, K, N, D, complex_, spread)
    pattern = 'none'
    if degenerate:
        pattern = d.choice(['none', 'none', 'zero-frames', 'all-zero',
                            'duplicates', 'rank-deficient', 'zero-slice'])
        y = apply_degeneracy(d, rng, y, pattern)
    scale_exp = 0
    single = False
    if single_precision and d.int(0, 5) == 0:
        single = True
    if allow_scale and d.bool():
        scale_exp = d.int(-15, 15) if single else d.int(-150, 150)
        y = y * 10.0 ** scale_exp
    if single:
        y = y.astype(np.complex64 if complex_ else np.float32)
    if want_aligner and (force_aligner or d.bool()):
        # a scene with a frequency permutation problem: the same activity over
        # time in every bin, per-bin prototypes; the start below is the blurred
        # truth with the class order scrambled per bin
        lab_t = rng.permutation(np.arange(N) % K)
        protos = gen.unit(gen.cnormal(rng, (lead_[0], K, D)))
        y = protos[:, lab_t, :] * gen.cnormal(rng, (lead_[0], N, 1)) + \
            spread * 0.3 * gen.cnormal(rng, (lead_[0], N, D))
        labels = np.broadcast_to(lab_t, (lead_[0], N)).copy()
        case.meta['permutation_problem'] = True
        pattern = 'none'
        scale_exp = 0
        case.meta.update(data=pattern, scale_exp=0)
        if single:
            y = y.astype(np.complex64)
    # observations that are unit vectors up to 1e-5 (normalised by the caller in
    # single precision, or with a small regulariser): "any magnitude" includes
    # magnitudes next to one.  Own stream: earlier recorded cases keep their data
    aux2 = np.random.default_rng([seed, 778])
    new_decisions = getattr(d, 'epoch', 2) >= 2     # see core.GENERATOR_EPOCH
    if new_decisions and np.iscomplexobj(y) and pattern == 'none' and scale_exp == 0 \
            and not single and int(aux2.integers(0, 6)) == 0:
        nrm = np.linalg.norm(y, axis=-1, keepdims=True)
        if np.all(nrm > 0):
            how = int(aux2.integers(0, 3))
            if how == 0:
                y32 = y.astype(np.complex64)
                y = (y32 / np.linalg.norm(y32, axis=-1, keepdims=True)).astype(np.complex128)
            elif how == 1:
                y = y / nrm * (1 + aux2.uniform(-1e-5, 1e-5, size=nrm.shape))
            else:
                y = y / (nrm + 10.0 ** aux2.uniform(-8, -5))
            case.meta['norms'] = 'near-unit'
    # memory layout of the observation: same values, other strides
    layout = ['c', 'c', 'c', 'transposed-view', 'fortran', 'strided'][int(aux.integers(0, 6))]
    case.y = relayout(y, layout)
    case.meta['layout'] = layout
    case.labels = labels
    if integ:
        e, _ = cluster_data(rng, lead_, K, N, case.E, False, spread)
        # tie the embedding clusters to the same labels
        protos = rng.normal(size=(K, case.E)) * 2
        e = protos[labels] + spread * rng.normal(size=(*lead_, N, case.E))
        if degenerate and pattern in ('all-zero',):
            pass
        case.emb = relayout(e, ['c', 'c', 'transposed-view', 'strided'][int(aux.integers(0, 4))])
    case.meta.update(data=pattern, scale_exp=scale_exp, single=single,
                     spread=spread, N_lt_D=N < D)

    # ---- initialisation
    ik = d.choice(list(init_kinds) + (['num_classes'] if allow_num_classes else []))
    if kind == 'cacgmm' and K == 1:
        ik = 'num_classes'   # the array path asserts K > 1
    if ik == 'num_classes':
        case.init = None
        case.np_seed = d.int(0, 2 ** 16)
    else:
        case.init = make_init(d, rng, case, ik, labels)
        if kind == 'cacgmm' and len(lead_) >= 1 and d.int(0, 5) == 0 and \
                ik != 'blurred':
            # singleton leading axes are broadcast by the trainer
            case.init = case.init[(0,) * len(lead_)][(None,) * len(lead_)]
            ik += '+singleton-lead'
    if case.meta.get('permutation_problem') and K >= 2:
        onehot = (labels[0][None, :] == np.arange(K)[:, None]).astype(float)
        soft = 0.8 * onehot + 0.2 * (1 - onehot) / (K - 1)
        case.init = np.stack([soft[rng.permutation(K)] for _ in range(lead_[0])])
        case.np_seed = 0
        ik = 'permuted-blurred-truth'
    if epoch3 and case.init is not None and ik.startswith('onehot') and kind not in INTEGRATION \
            and int(aux3.integers(0, 3)) < (2 if case.meta.get('frames') == 'many' else 1):
        # a hard partition as the caller may store it: boolean or small integers
        dt = [np.int8, np.bool_, np.int64, np.float32, np.int8][int(aux3.integers(0, 5))]
        if dt is np.float32 and not single_precision:
            # (a single-precision start makes the whole fit single precision:
            # only where the caller judges with single-precision tolerances)
            dt = np.int64
        case.init = case.init.astype(dt)
        if dt is np.float32:
            case.meta['single'] = True
        ik += ':' + np.dtype(dt).name
    case.meta['init'] = ik
    case.iterations = d.int(1, max_iterations)

    # ---- options
    o = {}
    if options:
        wca = d.choice(weight_axis_options(kind, len(lead_)))
        o['weight_constant_axis'] = wca
        sal_kind = d.choice(['none', 'none', 'positive', 'uneven', 'zeros',
                             'binary'])
        if positive_saliency_only and sal_kind in ('zeros', 'binary'):
            sal_kind = 'uneven'
        if sal_kind != 'none':
            s = rng.uniform(0.2, 2.0, size=(*lead_, N))
            if sal_kind == 'uneven':
                # very different saliency mass per slice
                s = s * 10 ** rng.uniform(-1.5, 1.5, size=(*lead_, 1))
            if sal_kind == 'binary':
                rate = rng.uniform(0.3, 1.0, size=(*lead_, 1))
                s = (rng.uniform(size=(*lead_, N)) < rate).astype(float)
                s[..., 0] = 1.0
            if sal_kind == 'zeros' and N >= 2:
                idx = d.subset(N, 1, N - 1)
                s[..., idx] = 0
            if new_decisions and sal_kind != 'binary' and int(aux2.integers(0, 4)) == 0:
                # the unit of the saliency is arbitrary ("all non-negative
                # saliency weights with positive sum")
                s = s * 10.0 ** aux2.uniform(-14, 4)
                case.meta['saliency_level'] = 'scaled'
            o['saliency'] = s
        case.meta['saliency'] = sal_kind
        if kind in ('cacgmm', 'gcacgmm', 'vmfcacgmm'):
            o['hermitize'] = d.bool()
            o['covariance_norm'] = d.choice(['eigenvalue', 'trace', False])
            o['affiliation_eps'] = d.choice([0.0, 1e-10, 1e-3])
            o['eigenvalue_floor'] = d.choice([1e-10, 1e-10, 1e-6, 1e-3, 3e-2])
            if new_decisions and int(aux2.integers(0, 4)) == 0:
                # any clipping constant, not only the three above
                o['affiliation_eps'] = float(10.0 ** aux2.uniform(-9, -4))
        if kind == 'cbmm':
            o['affiliation_eps'] = d.choice([0.0, 1e-10])
        if kind in ('gmm', 'gcacgmm'):
            o['covariance_type'] = d.choice(['full', 'diagonal', 'spherical'])
        if kind in ('vmfmm', 'vmfcacgmm'):
            if d.bool():
                o['min_concentration'] = d.choice([1e-10, 1e-3, 1.0])
                o['max_concentration'] = d.choice([500, 100, 20, 1000, 5000])
        if integ:
            o['spatial_weight'] = d.choice([1.0, 1.0, 0.0, 0.5, 2.0])
            o['spectral_weight'] = d.choice([1.0, 1.0, 0.0, 0.5, 2.0])
            o['inline_permutation_alignment'] = (K <= 4 and d.int(0, 3) == 0)
            if stable_only and o['inline_permutation_alignment']:
                # with a weightless stream every class permutation has the
                # same auxiliary value (an exact tie decided by rounding)
                o['spatial_weight'] = d.choice([1.0, 0.5, 2.0])
                o['spectral_weight'] = d.choice([1.0, 0.5, 2.0])
        if kind == 'cacgmm' and allow_mask and case.init is not None and \
                case.init.shape == case.aff_shape and d.int(0, 3) == 0:
            m = rng.uniform(size=case.aff_shape) > 0.3
            if d.bool() and N >= 2:
                # frames where every source is inactive
                idx = d.subset(N, 1, max(1, N // 3))
                m[..., :, idx] = False
            o['source_activity_mask'] = m
        if kind in ('cwmm', 'cbmm') and d.int(0, 3) == 0:
            case.trainer_kwargs['max_concentration'] = d.choice([100, 500, 1000] if kind == 'cwmm' else [100, 500])
        if kind in ('cwmm', 'cbmm') and d.int(0, 3) == 0:
            case.trainer_kwargs['dimension'] = D      # explicit feature dimension
        if kind == 'cwmm' and d.int(0, 4) == 0:
            case.trainer_kwargs['spline_markers'] = d.choice([1000, 300, 2000])
        if kind == 'cbmm' and d.int(0, 4) == 0:
            case.trainer_kwargs['eigenvalue_eps'] = d.choice([1e-8, 1e-6])
        if kind in ('gmm', 'gcacgmm') and d.int(0, 4) == 0:
            # covariance not learned: the caller provides it
            ct = o.get('covariance_type', 'full' if kind == 'gmm' else 'spherical')
            Dg = D if kind == 'gmm' else case.E
            cl = lead_ if kind == 'gmm' else ()
            if ct == 'full':
                fc = gen.spd(rng, Dg, 10, 1.0, (*cl, K))
            elif ct == 'diagonal':
                fc = rng.uniform(0.5, 2.0, size=(*cl, K, Dg))
            else:
                fc = rng.uniform(0.5, 2.0, size=(*cl, K))
            o['fixed_covariance'] = fc
        if want_aligner and 'source_activity_mask' not in o:
            import pb_bss.permutation_alignment as pa
            o['weight_constant_axis'] = d.choice([(-3,), (-3, -1), -3])
            which = d.choice(['greedy-cos', 'greedy-euclidean', 'dhtv'])
            if which == 'dhtv':
                F = lead_[0]
                o['inline_permutation_aligner'] = pa.DHTVPermutationAlignment(
                    stft_size=2 * (F - 1), segment_start=0, segment_width=F,
                    segment_shift=1, main_iterations=2, sub_iterations=1)
            else:
                o['inline_permutation_aligner'] = pa.GreedyPermutationAlignment(
                    similarity_metric=which.split('-')[1])
            case.meta['aligner'] = which
    # documented defaults: in one case of three some options are set to their
    # documented default value and then *not passed* to the library
    case.omit = set()
    if options and int(aux.integers(0, 3)) == 0:
        for key, default in DOCUMENTED_DEFAULTS.get(kind, {}).items():
            if int(aux.integers(0, 2)):
                continue
            if key == 'weight_constant_axis' and (
                    want_aligner or 'inline_permutation_aligner' in o):
                continue
            if stable_only and key in ('spatial_weight', 'spectral_weight',
                                       'inline_permutation_alignment'):
                continue
            if key == 'covariance_type' and 'fixed_covariance' in o:
                continue      # the provided covariance has the drawn type
            o[key] = default
            case.omit.add(key)
        case.meta['defaults'] = sorted(case.omit)
    case.opts = o
    return case


def call_fit(ctx, case, allow_reject=True, **kw):
    """fit through ctx.lib: explicit exceptions become Rejected (allowed by
    C01/C09), anything else a violation."""
    return ctx.lib(fit, case, allow=EXPLICIT if allow_reject else (), **kw)


# --------------------------------------------------------------------------
# independent component densities (pbv.oracles, explicit loops)
# --------------------------------------------------------------------------

def oracle_component_log_pdf(model, case, y=None, emb=None, streams=None):
    """log p_k(y_n) computed with the reference densities of pbv.oracles
    from the parameters stored in the model; shape (*lead, K, N)."""
    from pbv.oracles import densities as od
    y = case.y if y is None else y
    kind = case.kind
    lead, K, N = case.lead, case.K, case.N
    out = np.empty((*lead, K, N))
    yn = normalize(np.asarray(y, dtype=np.complex128 if np.iscomplexobj(y)
                              else np.float64))

    def cacg_part(cacg, idx, k):
        V = np.asarray(cacg.covariance_eigenvectors)[idx][k]
        lam = np.asarray(cacg.covariance_eigenvalues)[idx][k]
        B = (V * lam) @ V.conj().T
        return od.cacg_logpdf(yn[idx], B)

    if kind == 'cacgmm':
        for idx in np.ndindex(*lead):
            for k in range(K):
                out[idx][k] = cacg_part(model.cacg, idx, k)
    elif kind == 'cwmm':
        w = model.complex_watson
        for idx in np.ndindex(*lead):
            for k in range(K):
                out[idx][k] = od.watson_logpdf(
                    yn[idx], np.asarray(w.mode)[idx][k],
                    float(np.asarray(w.concentration)[idx][k]))
    elif kind == 'cbmm':
        b = model.complex_bingham
        for idx in np.ndindex(*lead):
            for k in range(K):
                out[idx][k] = od.bingham_logpdf(
                    yn[idx], np.asarray(b.covariance_eigenvectors)[idx][k],
                    np.asarray(b.covariance_eigenvalues)[idx][k])
    elif kind == 'gmm':
        g = model.gaussian
        ct = case.opts.get('covariance_type', 'full')
        for idx in np.ndindex(*lead):
            for k in range(K):
                mean = np.asarray(g.mean)[idx][k]
                cov = np.asarray(g.covariance)[idx][k]
                if ct == 'full':
                    out[idx][k] = od.gaussian_logpdf(y[idx], mean, cov)
                elif ct == 'diagonal':
                    out[idx][k] = od.diag_gaussian_logpdf(y[idx], mean, cov)
                else:
                    out[idx][k] = od.spherical_gaussian_logpdf(y[idx], mean, cov)
    elif kind == 'vmfmm':
        v = model.vmf
        for idx in np.ndindex(*lead):
            for k in range(K):
                out[idx][k] = od.vmf_logpdf(
                    y[idx], np.asarray(v.mean)[idx][k],
                    float(np.asarray(v.concentration)[idx][k]))
    elif kind in INTEGRATION:
        emb = case.emb if emb is None else emb
        F = lead[0]
        for f in range(F):
            for k in range(K):
                spatial = cacg_part(model.cacg, (f,), k)
                if kind == 'gcacgmm':
                    g = model.gaussian
                    ct = case.opts.get('covariance_type', 'spherical')
                    mean = np.asarray(g.mean)[k]
                    cov = np.asarray(g.covariance)[k]
                    if ct == 'full':
                        spectral = od.gaussian_logpdf(emb[f], mean, cov)
                    elif ct == 'diagonal':
                        spectral = od.diag_gaussian_logpdf(emb[f], mean, cov)
                    else:
                        spectral = od.spherical_gaussian_logpdf(emb[f], mean, cov)
                else:
                    v = model.vmf
                    spectral = od.vmf_logpdf(
                        emb[f], np.asarray(v.mean)[k],
                        float(np.asarray(v.concentration)[k]))
                out[f, k] = model.spatial_weight * spatial + \
                    model.spectral_weight * spectral
                if streams is not None:
                    streams[0][f, k] = spatial
                    streams[1][f, k] = spectral
    else:
        raise NotImplementedError(kind)
    return out


def oracle_stream_log_pdfs(model, case):
    """integration models: the reference log-densities of the two streams
    separately, each (F, K, N), without the stream weights"""
    F, K, N = case.lead[0], case.K, case.N
    streams = (np.empty((F, K, N)), np.empty((F, K, N)))
    oracle_component_log_pdf(model, case, streams=streams)
    return streams


# --------------------------------------------------------------------------
# comparison of two fitted models (gauge free)
# --------------------------------------------------------------------------

def compare_params(pa, pb, clause, *, rtol=1e-7, atol=1e-9, kind='', what=''):
    """pa / pb: dictionaries from params().  Every entry is compared with
    |a-b| <= atol + rtol * max|entry| (matrix-valued entries are scaled by
    their own largest element, concentrations element-wise)."""
    for key in pa:
        a, b = np.asarray(pa[key]), np.asarray(pb[key])
        if a.shape != b.shape:
            raise Violation(clause, f'{what} {key}: shape {a.shape} vs {b.shape}',
                            kind=kind)
        if not (np.all(np.isfinite(a)) and np.all(np.isfinite(b))):
            if np.array_equal(np.isfinite(a), np.isfinite(b)):
                continue
            raise Violation(clause, f'{what} {key}: non-finite mismatch', kind=kind)
        if key.endswith('concentration'):
            err = np.abs(a - b)
            tol = atol + rtol * np.maximum(np.abs(a), np.abs(b))
            bad = err > tol
            if np.any(bad):
                i = int(np.argmax(err - tol))
                raise Violation(
                    clause, f'{what} {key}: {a.ravel()[i]:.10g} vs '
                            f'{b.ravel()[i]:.10g}', kind=kind)
        else:
            scale = max(float(np.max(np.abs(a))) if a.size else 0.0,
                        float(np.max(np.abs(b))) if b.size else 0.0)
            err = float(np.max(np.abs(a - b))) if a.size else 0.0
            # Bingham eigenvalues come from an iterative bounded least-squares
            # solver (termination tolerance 1e-8 on the cost): two runs on
            # inputs that differ by rounding agree to about 1e-4 relative
            if key == 'bingham_matrix':
                rtol_k, atol_k = max(rtol, 1e-3), max(atol, 1e-3)
            else:
                rtol_k, atol_k = rtol, atol
            if err > atol_k + rtol_k * scale:
                raise Violation(
                    clause, f'{what} {key}: max|diff|={err:.3e} '
                            f'(scale {scale:.3e})', kind=kind)


def permute_classes(arr, perm, axis):
    return np.take(arr, perm, axis=axis)


def ill_conditioned(model, case, bingham_limit=-1e6):
    """the fit sits on a numerical guard (eigenvalue floor, concentration
    clip, vanishing weight): rounding errors are amplified by up to
    1/floor, so metamorphic / differential comparisons are not judged"""
    kind = case.kind
    if kind in ('cacgmm', 'gcacgmm', 'vmfcacgmm'):
        lam = np.asarray(model.cacg.covariance_eigenvalues)
        mx = lam.max(axis=-1, keepdims=True)
        if np.any(lam < 1e-7 * mx):
            return True
    if kind == 'cwmm':
        c = np.asarray(model.complex_watson.concentration)
        mc = case.trainer_kwargs.get('max_concentration', 500)
        if np.any(c <= 0) or np.any(c >= mc):
            return True
    if kind in ('vmfmm', 'vmfcacgmm'):
        c = np.asarray(model.vmf.concentration)
        lo = case.opts.get('min_concentration', 1e-10)
        hi = case.opts.get('max_concentration', 500)
        if np.any(c <= lo) or np.any(c >= hi):
            return True
    if kind == 'cbmm':
        lam = np.asarray(model.complex_bingham.covariance_eigenvalues)
        if np.any(lam < bingham_limit):
            return True
    if kind in ('gmm', 'gcacgmm'):
        # a collapsing Gaussian component (covariance singular up to rounding)
        cov = np.asarray(model.gaussian.covariance, dtype=np.float64)
        ct = case.opts.get('covariance_type', 'full' if kind == 'gmm' else 'spherical')
        if not np.all(np.isfinite(cov)):
            return True
        if ct == 'full':
            ev = np.linalg.eigvalsh((cov + np.swapaxes(cov, -1, -2)) / 2)
            if np.any(ev[..., 0] <= 1e-10 * np.abs(ev[..., -1])):
                return True
        else:
            scale = np.max(np.abs(cov), axis=-1, keepdims=True) if ct == 'diagonal' \
                else np.max(np.abs(cov))
            if np.any(cov <= 1e-10 * scale) or np.any(cov <= 0):
                return True
    w = np.asarray(model.weight)
    if np.any(w < 1e-12):
        return True
    return False
