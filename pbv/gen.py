"""Shared generators.  Structure is drawn through the draw object ``d`` (and
therefore shrinks); bulk numeric content comes from a numpy Generator seeded by
``d.seed()``."""
import numpy as np


def haar_unitary(rng, D, complex_=True):
    if complex_:
        a = rng.normal(size=(D, D)) + 1j * rng.normal(size=(D, D))
    else:
        a = rng.normal(size=(D, D))
    q, r = np.linalg.qr(a)
    ph = np.diagonal(r) / np.abs(np.diagonal(r))
    return q * ph


def spectrum(rng, D, cond):
    """log-uniform spectrum with max 1 and min 1/cond (both attained)."""
    if D == 1:
        return np.ones(1)
    u = np.sort(rng.uniform(0, 1, size=D))
    u[0], u[-1] = 0.0, 1.0
    return cond ** (u - 1.0)


def spd(rng, D, cond, scale=1.0, lead=()):
    """Real symmetric positive definite, non-diagonal by construction."""
    out = np.empty((*lead, D, D))
    for idx in np.ndindex(*lead):
        q = haar_unitary(rng, D, complex_=False)
        lam = spectrum(rng, D, cond) * scale
        m = (q * lam) @ q.T
        out[idx] = (m + m.T) / 2
    return out


def hpd(rng, D, cond, scale=1.0, lead=()):
    """Hermitian positive definite, non-diagonal by construction."""
    out = np.empty((*lead, D, D), dtype=np.complex128)
    for idx in np.ndindex(*lead):
        q = haar_unitary(rng, D, complex_=True)
        lam = spectrum(rng, D, cond) * scale
        m = (q * lam) @ q.conj().T
        out[idx] = (m + m.conj().T) / 2
    return out


def cnormal(rng, shape):
    return (rng.normal(size=shape) + 1j * rng.normal(size=shape)) / np.sqrt(2)


def unit(x, axis=-1):
    return x / np.linalg.norm(x, axis=axis, keepdims=True)


def draw_lead(d, max_axes=2, max_size=3):
    n = d.int(0, max_axes)
    return tuple(d.int(1, max_size) for _ in range(n))


def offdiag_energy(m):
    m = np.asarray(m)
    D = m.shape[-1]
    if D == 1:
        return 0.0
    off = m * (1 - np.eye(D))
    tot = np.sum(np.abs(m) ** 2, axis=(-2, -1))
    return float(np.min(np.sum(np.abs(off) ** 2, axis=(-2, -1)) / np.maximum(tot, 1e-300)))


def relayout(a, layout):
    """the same array values behind another memory layout"""
    a = np.asarray(a)
    if layout == 'transposed-view' and a.ndim >= 2:
        return np.ascontiguousarray(np.swapaxes(a, -1, -2)).swapaxes(-1, -2)
    if layout == 'fortran' and a.ndim >= 2:
        return np.asfortranarray(a)
    if layout == 'strided' and a.ndim >= 1 and a.shape[-1] >= 1:
        big = np.zeros((*a.shape[:-1], 2 * a.shape[-1]), dtype=a.dtype)
        view = big[..., ::2]
        view[...] = a
        return view
    if layout == 'leading-transposed' and a.ndim >= 3:
        # leading axes stored in the other order
        return np.ascontiguousarray(np.swapaxes(a, 0, 1)).swapaxes(0, 1)
    return a


LAYOUTS = ['c', 'c', 'c', 'transposed-view', 'fortran', 'strided', 'leading-transposed']


def vary(d, a, tag):
    """relayout ``a`` as decided by the auxiliary stream ``tag`` of the case"""
    return relayout(a, LAYOUTS[int(d.aux(tag).integers(0, len(LAYOUTS)))])


def structure(d, a, tag, share=5):
    """Hermitian positive definite stacks with *exact* structure in one case of
    ``share`` (decided by the auxiliary stream ``tag``): exactly diagonal with
    unequal entries (spatially uncorrelated sensor noise), an exact multiple of
    the identity, or exactly real.  The condition number never exceeds that of
    ``a`` (Cauchy interlacing for the diagonal), so the tolerances of the
    callers, which are written in terms of it, stay valid."""
    if getattr(d, 'epoch', 3) < 3 or a.shape[-1] != a.shape[-2]:
        return a
    aux = d.aux(tag)
    if int(aux.integers(0, share)) != 0:
        return a
    kind = int(aux.integers(0, 3))
    D = a.shape[-1]
    eye = np.eye(D)
    diag = np.real(np.einsum('...dd->...d', a))
    if kind == 0:
        out = diag[..., :, None] * eye
    elif kind == 1:
        out = diag[..., :1, None] * eye
    else:
        return np.ascontiguousarray(a.real).astype(a.dtype) if np.iscomplexobj(a) else a
    return out.astype(a.dtype)
