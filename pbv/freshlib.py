"""A pristine copy of the library inside the running process.

``with pristine_library():`` removes every ``pb_bss`` module from
``sys.modules`` so that the imports executed inside the block (the harness
imports the library at call time everywhere) load the package anew: module
level tables, class attributes, memoised functions and import-time state are
those of a fresh interpreter, while NumPy / SciPy stay loaded (a copy costs
about 0.1 s instead of the 2 s of a new process).  On exit the modules that
were installed before are put back; objects created inside the block keep
working, they reference their own copy.
"""
import contextlib
import sys


def _ours(name):
    return name == 'pb_bss' or name.startswith('pb_bss.')


@contextlib.contextmanager
def pristine_library():
    saved = {k: v for k, v in sys.modules.items() if _ours(k)}
    for k in saved:
        del sys.modules[k]
    try:
        yield
    finally:
        for k in [k for k in sys.modules if _ours(k)]:
            del sys.modules[k]
        sys.modules.update(saved)
