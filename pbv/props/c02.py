"""C02 - EM iterations never decrease the mixture log-likelihood.

History invariant: the log-likelihood of the model after iteration i, computed
with the *independent* densities of pbv.oracles, is non-decreasing in i along
every prefix on which no numerical guard is active.
"""
import numpy as np

from pbv import gen, mm
from pbv.core import Borderline, Violation, require, subcheck

SUBCHECKS = []
RULE = (
    'Histories: cACGMM, cWMM, GMM (full/diagonal/spherical), GCACGMM with '
    'unit stream weights; general-position clustered data with N in '
    '[4KD, 4KD+20] per slice, 0..2 leading axes, strictly positive Dirichlet '
    'starts (floor 1e-3), n in {2,3,5,10,20,30} iterations (50 instead of 30 in the thorough tier), every '
    'weight_constant_axis, saliency none/positive, covariance_norm, '
    'hermitize, affiliation_eps in {0, 1e-10}. The trajectory is taken from '
    'the iteration-trace hook of one run and cross-checked against '
    'fit(iterations=i) refits and (cACGMM) chains continued from the returned '
    'model. Non-trivial: at least 3 unguarded iterations and a total increase '
    '> 1e-6 (1+|LL_1|). Distinct = distinct recorded choice sequence.'
)


def guard_active(model, case):
    """a numerical guard (eigenvalue floor, concentration clip) is active"""
    kind = case.kind
    if kind in ('cacgmm', 'gcacgmm'):
        lam = np.asarray(model.cacg.covariance_eigenvalues)
        floor = case.opts.get('eigenvalue_floor', 1e-10)
        mx = lam.max(axis=-1, keepdims=True)
        if np.any(lam < 1e4 * floor * mx):
            return True
    if kind == 'cwmm':
        c = np.asarray(model.complex_watson.concentration)
        mc = case.trainer_kwargs.get('max_concentration', 500)
        if np.any(c <= 1e-3) or np.any(c >= 0.999 * mc):
            return True
    if kind in ('gmm', 'gcacgmm'):
        # a (nearly) collapsed component: the density is unbounded there and
        # the data are not in general position for that class any more
        cov = np.asarray(model.gaussian.covariance)
        ct = case.opts.get('covariance_type', 'full' if kind == 'gmm' else 'spherical')
        if ct == 'full':
            ev = np.linalg.eigvalsh((cov + np.swapaxes(cov, -1, -2)) / 2)
            if np.any(ev.min(axis=-1) < 1e-8 * ev.max(axis=-1)):
                return True
        elif ct == 'diagonal':
            if np.any(cov.min(axis=-1) < 1e-8 * cov.max(axis=-1)):
                return True
        if np.any(cov <= 0) and ct != 'full':
            return True
        # collapse onto a single observation (all variances of a class tiny
        # against the spread of the data - the textbook singularity of the
        # Gaussian mixture likelihood, also for spherical covariances)
        data = case.emb if kind == 'gcacgmm' else case.y
        arr = np.asarray(data, dtype=np.float64)
        # per-feature variance (a common offset of the data is not spread)
        spread = float(np.mean(np.var(arr.reshape(-1, arr.shape[-1]), axis=0)))
        var = np.abs(ev) if ct == 'full' else np.abs(cov)
        if np.any(var < 1e-10 * max(spread, 1e-300)):
            return True
    w = np.asarray(model.weight)
    if np.any(w < 1e-12):
        return True
    return False


def oracle_ll(model, case):
    lp = mm.oracle_component_log_pdf(model, case)
    return mm.mixture_log_likelihood(
        lp, mm.weight_broadcast(model, case), case.opts.get('saliency'))


def _draw(d, kind, max_iter, tied=False):
    if tied:
        return _draw_tied(d, kind, max_iter)
    case = mm.draw_case(
        d, [kind], degenerate=False, general_position=True, max_lead=2,
        max_K=4, min_K=1, max_D=8, allow_num_classes=False,
        single_precision=False, allow_aligner=False,
        max_iterations=max_iter, allow_scale=False,
        init_kinds=('dirichlet',), allow_mask=False,
        positive_saliency_only=True, regular_share=False)
    import os
    deep = 50 if os.environ.get('PBV_TIER') == 'thorough' else max(max_iter, 2)
    case.iterations = d.choice([2, 3, 5, 10, 20, deep])
    o = case.opts
    if 'affiliation_eps' in o:
        o['affiliation_eps'] = 0.0 if o['affiliation_eps'] == 1e-3 else \
            o['affiliation_eps']
    if 'eigenvalue_floor' in o:
        o['eigenvalue_floor'] = 1e-10
    if kind == 'gcacgmm':
        o['spatial_weight'] = 1.0
        o['spectral_weight'] = 1.0
        o['inline_permutation_alignment'] = False
    return case


def _draw_tied(d, kind, max_iter):
    """weights tied across a leading axis whose slices carry very different
    saliency mass - the regime in which a wrong pooling of the weight update
    shows"""
    F = d.int(2, 4)
    case = mm.draw_case(
        d, [kind], degenerate=False, general_position=True, max_K=3, min_K=2,
        max_D=4, allow_num_classes=False, single_precision=False,
        allow_aligner=False, allow_scale=False, init_kinds=('dirichlet',),
        allow_mask=False, options=False, force_lead=(F,),
        regular_share=False)
    rng = d.rng()
    skind = d.choice(['uneven', 'binary'])
    if skind == 'uneven':
        s = rng.uniform(0.2, 2.0, size=(F, case.N)) * \
            10 ** rng.uniform(-1.5, 1.5, size=(F, 1))
    else:
        rate = np.sort(rng.uniform(0.15, 1.0, size=(F, 1)), axis=0)
        s = (rng.uniform(size=(F, case.N)) < rate).astype(float)
        # general position also for the selected observations: at least
        # 2*K*D of them in every slice
        s[:, :2 * case.K * case.D] = 1.0
    case.opts = dict(saliency=s,
                     weight_constant_axis=d.choice([(-3,), (-3, -1), -3]))
    if kind == 'gmm':
        case.opts['covariance_type'] = d.choice(['full', 'diagonal', 'spherical'])
    case.meta['saliency'] = skind
    case.iterations = d.choice([10, 20, max_iter])
    return case


def _trajectory(ctx, case):
    from pb_bss import _verif
    trace = []

    def cb(**kw):
        trace.append(kw['model'])
    _verif.register(cb)
    try:
        final = ctx.lib(mm.fit, case, allow_if=mm.explicit_refusal,
                        clause='fit-raises')
    finally:
        _verif.unregister(cb)
    if len(trace) != case.iterations:
        # hook did not fire (guard off or hook removed): fall back to refits
        ctx.label('trajectory-by-refit')
        trace = [ctx.lib(mm.fit, case, iterations=i + 1,
                         allow_if=mm.explicit_refusal)
                 for i in range(case.iterations)]
    else:
        ctx.label('trajectory-by-hook')
    return trace, final


def _check(d, ctx, kind, max_iter, tied=False):
    case = _draw(d, kind, max_iter, tied)
    # Gaussian streams: a common offset far larger than the spread of the data
    # in one case of four (features with a large mean: log-energies,
    # embeddings) - general position is unaffected
    offset = 0.0
    if kind in ('gmm', 'gcacgmm') and d.aux(21).integers(0, 3) == 0:
        offset = 10.0 ** d.aux(22).uniform(5, 7.5)
        direction = d.aux(23).normal(size=(case.E if kind == 'gcacgmm' else case.D))
        direction /= np.linalg.norm(direction)
        if kind == 'gmm':
            case.y = case.y + offset * direction
        else:
            case.emb = case.emb + offset * direction
        case.meta['offset'] = offset
    if kind == 'cwmm' and not tied and d.aux(24).integers(0, 2) == 0:
        # overlapping classes of moderate concentration (kappa about 4..25, a
        # different one per class): the regime in which the E-step depends on
        # the normaliser of every class, over many iterations
        aux = d.aux(25)
        K, N, D = case.K, case.N, case.D
        modes = gen.unit(gen.cnormal(aux, (*case.lead, K, D)))
        lab = aux.integers(0, K, size=(*case.lead, N))
        snr = aux.uniform(4, 25, size=(*case.lead, K))
        pick = np.take_along_axis(modes, lab[..., None], axis=-2)
        amp = np.sqrt(np.take_along_axis(snr, lab, axis=-1))[..., None]
        case.y = pick * amp + gen.cnormal(aux, (*case.lead, N, D)) * np.sqrt(2)
        case.meta['data'] = 'overlapping-moderate-concentration'
        case.iterations = int(aux.choice([10, 20, 30]))
    ctx.describe(**case.describe())
    ctx.label(kind, f'wca={case.opts.get("weight_constant_axis")}',
              f'saliency={case.meta.get("saliency")}',
              f'eps={case.opts.get("affiliation_eps")}',
              f'ctype={case.opts.get("covariance_type")}')
    trace, final = _trajectory(ctx, case)
    n = case.iterations
    eps = case.opts.get('affiliation_eps', 0.0) or 0.0
    total_n = int(np.prod(case.lead, dtype=int)) * case.N
    lls = []
    for i, model in enumerate(trace):
        if guard_active(model, case):
            ctx.label('guard-active')
            break
        lls.append(oracle_ll(model, case))
    rel = 1e-9
    for i in range(1, len(lls)):
        tol = (rel + total_n * case.K * eps * 50) * (1 + abs(lls[i - 1])) \
            + (1e-9 * total_n if kind == 'cwmm' else 0.0) \
            + total_n * offset * 1e-13     # rounding of y - mean at the offset
        if not np.isfinite(lls[i]) or lls[i] < lls[i - 1] - tol:
            raise Violation(
                'log-likelihood-decreased',
                f'iteration {i}->{i + 1}: {lls[i - 1]:.12g} -> {lls[i]:.12g} '
                f'(drop {lls[i - 1] - lls[i]:.3e}, tol {tol:.1e})', kind=kind)
    # the trajectory is the one fit(iterations=i) produces (so the hook
    # cannot misreport): compare one drawn prefix and the final model
    i = d.int(1, n)
    refit = ctx.lib(mm.fit, case, iterations=i, allow_if=mm.explicit_refusal)
    a, b = mm.params(refit, case), mm.params(trace[i - 1], case)
    for key in a:
        require(np.allclose(a[key], b[key], rtol=1e-9, atol=1e-12),
                'prefix-model-differs-from-refit',
                f'{key} after {i} iterations', kind=kind)
    a, b = mm.params(final, case), mm.params(trace[-1], case)
    for key in a:
        require(np.array_equal(a[key], b[key]), 'returned-model-is-last-iterate',
                key, kind=kind)

    if kind == 'cacgmm':
        # library's own log_likelihood == mixture log-likelihood (weights in)
        if case.opts.get('saliency') is None and len(lls) == len(trace):
            own = float(ctx.lib(final.log_likelihood, case.y))
            require(abs(own - lls[-1]) <= 1e-9 * (1 + abs(lls[-1])),
                    'log_likelihood-method-is-mixture-ll',
                    f'model.log_likelihood {own:.12g} oracle {lls[-1]:.12g}',
                    kind=kind)
            ctx.label('log_likelihood-method-checked')
        # chain continued from the returned model
        if d.bool() and len(lls) == len(trace):
            steps = d.int(1, 3)
            model = final
            prev = lls[-1]
            for s in range(steps):
                model = ctx.lib(mm.fit, case, init=model, iterations=1,
                                allow_if=mm.explicit_refusal)
                if guard_active(model, case):
                    break
                cur = oracle_ll(model, case)
                tol = (rel + total_n * case.K * eps * 50) * (1 + abs(prev))
                if cur < prev - tol:
                    raise Violation(
                        'log-likelihood-decreased-in-continued-fit',
                        f'step {s}: {prev:.12g} -> {cur:.12g}', kind=kind)
                prev = cur
            ctx.label('continued-chain')
    gain = (lls[-1] - lls[0]) if len(lls) >= 2 else 0.0
    ctx.nontrivial(len(lls) >= 3 and gain > 1e-6 * (1 + abs(lls[0])))
    ctx.label(f'unguarded={min(len(lls), 6)}')


def _make(kind, quick, thorough):
    @subcheck(SUBCHECKS, f'monotone_{kind}', quick=quick, thorough=thorough,
              min_nontrivial=0.05)
    def fn(d, ctx, _kind=kind):
        _check(d, ctx, _kind, 30)
    return fn


_make('cacgmm', 350, 6000)
_make('cwmm', 250, 4500)
_make('gmm', 350, 6000)
_make('gcacgmm', 250, 4000)


@subcheck(SUBCHECKS, 'monotone_tied_uneven_saliency', quick=240, thorough=4000,
          min_nontrivial=0.05)
def monotone_tied(d, ctx):
    _check(d, ctx, d.choice(['cacgmm', 'cwmm', 'gmm']), 30, tied=True)


@subcheck(SUBCHECKS, 'monotone_recording_sized', quick=6, thorough=24, min_nontrivial=0.0)
def monotone_recording_sized(d, ctx):
    """the same law on a problem of the size of a real recording (tens of
    frequency bins, thousands of frames: F*K*D*N of 4e6..1e7), where
    implementations switch to blockwise or memory-bounded code paths; a few
    cases per run, seconds each."""
    kind = d.choice(['cacgmm', 'cacgmm', 'cacgmm', 'gmm', 'cwmm'])
    K = d.int(2, 3)
    D = d.int(3, 4)
    F = d.int(24, 64)
    target = 2 ** 22 * d.float(1.15, 2.2)
    N = int(target / (F * K * D)) + d.int(1, 7)
    rng = d.rng()
    complex_ = not mm.real_kind(kind)
    case = mm.Case(kind=kind, lead=(F,), K=K, D=D, N=N, iterations=3)
    case.y, labels = mm.cluster_data(rng, (F,), K, N, D, complex_, 0.7)
    if d.int(0, 3) > 0:
        # sources active one after the other (a conversation), not interleaved
        order = np.argsort(labels, axis=-1, kind='stable')
        case.y = np.take_along_axis(case.y, order[..., None], axis=-2)
        ctx.label('sources-in-turns')
    case.init = np.moveaxis(rng.dirichlet(np.ones(K) * 2, size=(F, N)), -1, -2)
    case.opts = {}
    if kind == 'gmm':
        case.opts['covariance_type'] = d.choice(['full', 'diagonal', 'spherical'])
    case.meta.update(data='none', init='dirichlet')
    ctx.describe(**case.describe())
    ctx.label(kind, 'recording-sized')
    trace, final = _trajectory(ctx, case)
    lls = []
    for model in trace:
        if guard_active(model, case):
            ctx.label('guard-active')
            break
        lls.append(oracle_ll(model, case))
    total_n = F * N
    for i in range(1, len(lls)):
        tol = 1e-9 * (1 + abs(lls[i - 1])) + 1e-9 * total_n
        if not np.isfinite(lls[i]) or lls[i] < lls[i - 1] - tol:
            raise Violation(
                'log-likelihood-decreased',
                f'recording-sized {kind} F={F} K={K} D={D} N={N}: iteration {i}->{i + 1}: '
                f'{lls[i - 1]:.12g} -> {lls[i]:.12g}', kind=kind)
    ctx.nontrivial(len(lls) >= 2)
