"""C03 - the true partition of separable data is a stable EM fixed point."""
import numpy as np

from pbv import gen, mm
from pbv.core import Borderline, Violation, close, require, subcheck

SUBCHECKS = []
RULE = (
    'Scenes: K 2..4, D K..8, prototypes = Haar-orthonormal vectors mixed to '
    'pairwise |cos| <= 0.3 (by construction, verified), perturbation level '
    'log-uniform in [1e-4, 1e-2], class sizes >= D+2 (drawn per class), '
    'arbitrary complex per-frame gains spanning 0, 6, 16 or 200 decades (positive gains for '
    'vMF streams, none for Gaussian streams), start = true partition blurred '
    'with beta in [0, 0.45] (cACG models <= 0.3, Gaussian streams and Bingham <= 0.15: the basin of exact EM, see DESIGN.md), iterations 1..20, all seven models (integration '
    'models: per-frequency spatial prototypes and global spectral '
    'prototypes). Non-trivial: beta >= 0.1 or iterations >= 2. Distinct = '
    'distinct recorded choice sequence.'
)


def prototypes(rng, K, D, complex_, target=0.3):
    q = gen.haar_unitary(rng, D, complex_)[:, :K].T      # (K, D) orthonormal
    alpha = rng.uniform(0.0, 0.15)
    while True:
        u = gen.unit(gen.cnormal(rng, (K, D)) if complex_ else rng.normal(size=(K, D)))
        p = gen.unit(q + alpha * u)
        g = np.abs(p.conj() @ p.T) - np.eye(K)
        if g.max() <= target:
            return p, float(g.max())
        alpha /= 2


def class_labels(d, rng, K, D, extra_max=6):
    sizes = [D + 2 + d.int(0, extra_max) for _ in range(K)]
    # "any class sizes >= D+2": in two cases of three some classes are several
    # times larger than the others (auxiliary stream of the recorded seed, the
    # data generator itself is seeded after this call)
    aux = np.random.default_rng([int(np.sum(sizes)) + 1000 * K + 7 * D +
                                 len(d.choices), 31])
    if aux.integers(0, 3):
        for k in range(K):
            if aux.integers(0, 2):
                sizes[k] = int(sizes[k] * aux.uniform(2, 8))
    lab = np.concatenate([np.full(s, k) for k, s in enumerate(sizes)])
    return rng.permutation(lab)


def blurred(labels, K, beta):
    onehot = (labels[..., None, :] == np.arange(K)[:, None]).astype(float)
    return (1 - beta) * onehot + beta * (1 - onehot) / (K - 1)


def angle(v, p):
    c = abs(np.vdot(p, v)) / (np.linalg.norm(v) * np.linalg.norm(p))
    return float(np.arccos(min(1.0, c)))


def _scene(d, kind):
    K = d.int(2, 4)
    D = d.int(K, 8 if kind != 'cbmm' else min(6, max(K, 5)))
    eps = d.log10(-4, -2)
    # The basin of attraction of the true partition is a property of EM
    # itself (C08 checks that the code implements EM): surveyed failure rates
    # of *correct* EM are 5-20 % for full-covariance Gaussians at beta >= 0.3
    # and about 1 % for cACG at beta = 0.45, zero below the bounds used here.
    # (these were once hard bounds of the generator; now every blur that keeps
    # the true class the largest is drawn and a case in which exact EM itself
    # leaves the partition - established by comparing every step with the
    # reference EM - is counted as borderline instead of judged)
    beta_max = 0.45
    beta = d.choice([0.0, 0.1, 0.15, 0.3, beta_max]) if d.bool() else d.float(0, beta_max)
    iterations = d.choice([1, 2, 3, 5, 10, 20])
    if kind == 'cbmm':
        iterations = d.choice([1, 2, 3])
    rng = d.rng()
    if d.epoch >= 3 and K >= 3 and d.aux(37).integers(0, 5) < 2:
        # "any blur ... that keeps the true class the largest": for K classes
        # that is any beta below (K-1)/K; the reference-EM cross-check decides
        # whether a failure at such a blur is EM's or the library's
        beta = float(d.aux(38).uniform(0.45, 0.97 * (K - 1) / K))
    # "perturbation level <= 1e-2": also far smaller levels and none at all
    # (observations numerically collinear with their prototype: rank-one class
    # scatter, null eigenvalues at rounding level) for the models that do not
    # need a non-singular within-class scatter (a Gaussian or Bingham component
    # of exactly collinear data is refused, and rightly so) - auxiliary stream
    if kind in ('cacgmm', 'cwmm', 'vmfmm', 'vmfcacgmm'):
        lv = int(d.aux(32).integers(0, 4))
        if lv == 0:
            eps = 10.0 ** d.aux(33).uniform(-12, -4)
        elif lv == 1 and d.aux(34).integers(0, 2):
            eps = 0.0
    span = d.choice([0, 3, 8, 100])
    case = mm.Case(kind=kind, K=K, D=D, iterations=iterations)
    case.meta['gain_span'] = span
    case.meta.update(eps=eps, beta=beta)
    complex_ = kind not in ('gmm', 'vmfmm')
    if kind in mm.INTEGRATION:
        F = d.int(1, 3)
        E = d.int(K, 6)
        labels = np.stack([class_labels(d, rng, K, max(D, E), 4) for _ in range(1)])
        T = labels.shape[-1]
        labels = np.stack([rng.permutation(labels[0]) for _ in range(F)])
        sp = np.stack([prototypes(rng, K, D, True)[0] for _ in range(F)])   # (F,K,D)
        se, _ = prototypes(rng, K, E, False)
        if d.epoch >= 3 and d.aux(35).integers(0, 5) == 0:
            aux = d.aux(36)
            sp = np.stack([np.eye(D)[aux.permutation(D)[:K]] *
                           np.exp(2j * np.pi * aux.uniform(size=(K, 1))) for _ in range(F)])
            case.meta['prototypes'] = 'coordinate-directions'
        obs = np.take_along_axis(sp, labels[..., None], axis=1) + \
            eps * gen.cnormal(rng, (F, T, D))
        obs = obs * (10 ** rng.uniform(-span, span, size=(F, T, 1)) *
                     np.exp(2j * np.pi * rng.uniform(size=(F, T, 1))))
        if kind == 'gcacgmm':
            emb = 5 * se[labels] + eps * rng.normal(size=(F, T, E))
        else:
            emb = gen.unit(se[labels] + eps * rng.normal(size=(F, T, E))) * \
                10 ** rng.uniform(-span, span, size=(F, T, 1))
        case.lead, case.N, case.E = (F,), T, E
        case.y, case.emb, case.labels = obs, emb, labels
        case.meta['protos'] = (sp, se)
    else:
        labels = class_labels(d, rng, K, D)
        N = labels.shape[0]
        p, maxcos = prototypes(rng, K, D, complex_)
        if d.epoch >= 3 and d.aux(35).integers(0, 5) == 0:
            # "orthonormal in the limit": K of the D coordinate directions
            # (a source seen by one sensor only), exact zeros elsewhere
            aux = d.aux(36)
            p = np.eye(D)[aux.permutation(D)[:K]].astype(p.dtype)
            if complex_:
                p = p * np.exp(2j * np.pi * aux.uniform(size=(K, 1)))
            else:
                p = p * aux.choice([-1.0, 1.0], size=(K, 1))
            case.meta['prototypes'] = 'coordinate-directions'
            # in half of these cases without any perturbation / blur (where the
            # model is defined on rank-one class data): exact zeros stay exact
            if kind in ('cacgmm', 'cwmm', 'vmfmm') and aux.integers(0, 2):
                eps = 0.0
                if aux.integers(0, 2):
                    beta = 0.0
                case.meta.update(eps=eps, beta=beta)
        if kind == 'gmm':
            y = 5 * p[labels] + eps * rng.normal(size=(N, D))
        elif kind == 'vmfmm':
            y = gen.unit(p[labels] + eps * rng.normal(size=(N, D))) * \
                10 ** rng.uniform(-span, span, size=(N, 1))
        else:
            y = p[labels] + eps * gen.cnormal(rng, (N, D))
            y = y * (10 ** rng.uniform(-span, span, size=(N, 1)) *
                     np.exp(2j * np.pi * rng.uniform(size=(N, 1))))
        case.lead, case.N = (), N
        case.y, case.labels = y, labels
        case.meta['protos'] = p
    case.init = blurred(case.labels, K, beta)
    # rarely used options must not disturb the fixed point
    if kind in ('vmfmm', 'vmfcacgmm') and d.bool():
        case.opts['max_concentration'] = d.choice([500, 1000, 5000, 200])
        case.opts['min_concentration'] = d.choice([1e-10, 1e-3])
    if kind == 'cwmm' and d.bool():
        case.trainer_kwargs['max_concentration'] = d.choice([500, 200, 700])
    if kind in ('cacgmm', 'gcacgmm', 'vmfcacgmm') and d.bool():
        case.opts['covariance_norm'] = d.choice(['eigenvalue', 'trace', False])
        case.opts['eigenvalue_floor'] = d.choice([1e-10, 1e-6])
    if kind in ('gmm', 'gcacgmm') and d.bool():
        case.opts['covariance_type'] = d.choice(['full', 'diagonal', 'spherical'])
    if kind == 'gmm' and d.bool():
        case.opts['weight_constant_axis'] = (-1,)
    case.meta['opts'] = {**case.opts, **case.trainer_kwargs}
    return case


def _library_did_exact_em(case):
    """Re-run the fit with the in-loop observer and compare every E- and
    M-step with the independent estimators of C08.  True: the library carried
    out exact EM on this input, so whatever the partition became is what EM
    does to it (the basin of attraction of the true partition is mathematics,
    not code).  False: some step deviates.  None: no per-iteration trace (hook
    not available)."""
    from pb_bss import _verif
    from pbv.props import c08
    trace = []

    def cb(**k):
        trace.append((k['model'], np.array(k['affiliation'], copy=True),
                      None if k['quadratic_form'] is None
                      else np.array(k['quadratic_form'], copy=True)))
    _verif.register(cb)
    try:
        mm.fit(case)
    except Exception:  # noqa
        return False
    finally:
        _verif.unregister(cb)
    if len(trace) != case.iterations:
        return None
    if any(mm.ill_conditioned(m, case) for m, _, _ in trace):
        # the comparison with the reference EM is not meaningful on a
        # numerical guard (collapsing component, floored eigenvalue)
        return 'ill-conditioned'
    # rounding in the posterior grows with the condition number of a Gaussian
    # covariance (within-class spread 1e-4 next to a between-class spread of
    # several units after a blurred start: 1e9 and more)
    cond = 1.0
    if case.kind in ('gmm', 'gcacgmm'):
        for m, _, _ in trace:
            cov = np.asarray(m.gaussian.covariance, dtype=np.float64)
            if cov.ndim >= 2 and cov.shape[-1] == cov.shape[-2] and \
                    case.opts.get('covariance_type', 'full' if case.kind == 'gmm'
                                  else 'spherical') == 'full':
                ev = np.linalg.eigvalsh((cov + np.swapaxes(cov, -1, -2)) / 2)
                cond = max(cond, float(np.max(ev[..., -1] / np.maximum(ev[..., 0], 1e-300))))
        if cond > 1e12:
            return 'ill-conditioned'
    e_tol = 1e-7 * max(1.0, cond / 1e7)
    try:
        for it, (model, aff, q) in enumerate(trace):
            if it > 0:
                exp_aff, exp_q = c08.estep_oracle(case, trace[it - 1][0])
                ok, _ = close(aff, exp_aff, atol=e_tol)
                if not ok:
                    return False
                if q is not None and not close(q, exp_q, rtol=1e-6, atol=1e-12)[0]:
                    return False
            c08.compare_mstep(case, model, c08.mstep_oracle(case, aff, q), it)
    except Violation:
        return False
    return True


def _outside_basin_or_violation(case, clause, detail, kind, model=None):
    exact = _library_did_exact_em(case)
    if exact == 'ill-conditioned':
        # the step-by-step comparison is not meaningful on a guard; but the
        # labels can still be compared with the reference posterior of the
        # fitted model itself: if that one has every observation in its true
        # class, the library's own posterior is what is wrong
        if model is not None and clause == 'argmax-is-not-the-true-class':
            from pbv.props import c08
            try:
                ref_post, _ = c08.estep_oracle(case, model)
            except Exception:  # noqa
                ref_post = None
            if ref_post is not None and np.all(np.isfinite(ref_post)) and \
                    np.array_equal(np.argmax(ref_post, axis=-2), case.labels):
                raise Violation(clause, detail + ' [the reference posterior of the fitted '
                                'model has every observation in its true class]', kind=kind)
        raise Borderline('a model of the trajectory sits on a numerical guard (' + clause + ')')
    if exact:
        raise Borderline('every step equals the reference EM: exact EM itself '
                         'leaves the true partition here (' + clause + ')')
    raise Violation(clause, detail + (' [no per-iteration trace]' if exact is None else
                                      ' [and the fit deviates from the reference EM]'),
                    kind=kind)


def _check(d, ctx, kind):
    case = _scene(d, kind)
    K = case.K
    ctx.describe(kind=kind, K=K, D=case.D, N=case.N, lead=case.lead,
                 eps=case.meta['eps'], beta=case.meta['beta'],
                 iterations=case.iterations, gain_span=case.meta['gain_span'],
                 options=case.meta.get('opts'))
    ctx.label(kind, f'gain_span={case.meta["gain_span"]}', f'K={K}', f'iter={case.iterations}',
              'blur' if case.meta['beta'] >= 0.1 else 'sharp')
    # an explicit refusal (a component collapsed on the way: scikit-learn's
    # "ill-defined empirical covariance", Bingham's scatter assertion) is EM
    # leaving the basin, not a wrong answer
    model = ctx.lib(mm.fit, case, allow_if=mm.explicit_refusal)
    post = ctx.lib(mm.predict, model, case, allow_if=mm.explicit_refusal)
    fp = ctx.lib(mm.fit, case, method='fit_predict', allow_if=mm.explicit_refusal)
    # fit_predict is fit followed by predict: the same numbers (this also keeps
    # the reference-EM cross-check below, which observes ``fit``, valid for it)
    # (GMMTrainer.fit_predict has another default weight_constant_axis, (-2,),
    # than GMMTrainer.fit, (-1,): comparable only when the option is given)
    comparable = kind != 'gmm' or 'weight_constant_axis' in case.opts
    if comparable and not close(fp, post, atol=1e-9)[0]:
        raise Violation('fit_predict-differs-from-fit-then-predict',
                        f'max diff {np.max(np.abs(np.asarray(fp) - np.asarray(post))):.3e}',
                        kind=kind)
    for name, p in (('predict', post), ('fit_predict', fp)):
        est = np.argmax(p, axis=-2)
        wrong = int(np.sum(est != case.labels))
        if wrong:
            _outside_basin_or_violation(
                case, 'argmax-is-not-the-true-class',
                f'{name}: {wrong} of {case.labels.size} observations mislabelled '
                f'(eps={case.meta["eps"]:.1e} beta={case.meta["beta"]:.2f} '
                f'iterations={case.iterations})', kind, model=model)
    # parameters point at the prototypes.  One or two M-steps on a blurred
    # partition still carry the blur (mean = blurred mean); the clause is
    # judged for an exact start or after >= 10 iterations with a sharpened
    # posterior (max posterior > 0.999 everywhere).
    sharp = bool(np.all(post.max(axis=-2) > 0.999))
    if not (case.meta['beta'] == 0 or (case.iterations >= 10 and sharp)):
        ctx.nontrivial(case.meta['beta'] >= 0.1 or case.iterations >= 2)
        ctx.label('parameters-not-judged')
        return
    ctx.label('parameters-judged')
    try:
        thr = 0.05
        protos = case.meta['protos']
        if kind in mm.INTEGRATION:
            sp, se = protos
            V = np.asarray(model.cacg.covariance_eigenvectors)
            lam = np.asarray(model.cacg.covariance_eigenvalues)
            for f in range(case.lead[0]):
                for k in range(K):
                    v = V[f, k][:, int(np.argmax(lam[f, k]))]
                    a = angle(v, sp[f, k])
                    require(a <= thr, 'cacg-principal-eigenvector-off-prototype',
                            f'f={f} k={k} angle={a:.3f}', kind=kind)
            if kind == 'gcacgmm':
                dist = np.linalg.norm(np.asarray(model.gaussian.mean) - 5 * se, axis=-1)
                require(np.all(dist <= thr), 'gaussian-mean-off-prototype',
                        f'{dist}', kind=kind)
            else:
                for k in range(K):
                    a = angle(np.asarray(model.vmf.mean)[k], se[k])
                    require(a <= thr and np.dot(model.vmf.mean[k], se[k]) > 0,
                            'vmf-mean-off-prototype', f'k={k} angle={a:.3f}', kind=kind)
        else:
            for k in range(K):
                if kind == 'cacgmm':
                    v = model.cacg.covariance_eigenvectors[k][:, int(np.argmax(
                        model.cacg.covariance_eigenvalues[k]))]
                    a = angle(v, protos[k])
                elif kind == 'cwmm':
                    a = angle(model.complex_watson.mode[k], protos[k])
                elif kind == 'cbmm':
                    b = model.complex_bingham
                    v = b.covariance_eigenvectors[k][:, int(np.argmax(
                        b.covariance_eigenvalues[k]))]
                    a = angle(v, protos[k])
                elif kind == 'gmm':
                    a = float(np.linalg.norm(model.gaussian.mean[k] - 5 * protos[k]))
                else:
                    a = angle(model.vmf.mean[k], protos[k])
                    require(np.dot(model.vmf.mean[k], protos[k]) > 0,
                            'vmf-mean-points-away', f'k={k}', kind=kind)
                require(a <= thr, 'class-parameter-off-prototype',
                        f'k={k} angle/distance={a:.4f} > {thr}', kind=kind)
    except Violation as v:
        _outside_basin_or_violation(case, v.clause, v.detail, kind)
    ctx.nontrivial(case.meta['beta'] >= 0.1 or case.iterations >= 2)


def _make(kind, quick, thorough):
    @subcheck(SUBCHECKS, f'fixed_point_{kind}', quick=quick, thorough=thorough)
    def fn(d, ctx, _kind=kind):
        _check(d, ctx, _kind)
    return fn


_make('cacgmm', 250, 4000)
_make('cwmm', 250, 4000)
_make('cbmm', 40, 600)
_make('gmm', 250, 4000)
_make('vmfmm', 250, 4000)
_make('gcacgmm', 180, 2500)
_make('vmfcacgmm', 180, 2500)
