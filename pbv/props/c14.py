"""C14 - permutation alignment only reorders classes."""
import itertools

import numpy as np

from pbv import gen

from pbv.core import Borderline, Rejected, Violation, require, require_close, subcheck

SUBCHECKS = []
RULE = (
    'Masks: K 1..6, odd F 1..21, T 1..8, entries from the tie-heavy alphabet '
    '{0, 0.5, 1, 2} (constant / zero / tied rows) or continuous; float64, '
    'float32 and signed integer dtypes; DHTV with every valid (start, width, '
    'shift, main/sub iterations, metric, algorithm) for stft_size = 2(F-1), '
    'greedy and oracle aligners with all metrics; exhaustive part: every '
    'score matrix over {0,1,2} with K <= 3 x {greedy, optimal} x {int, '
    'float}; inline EM alignment and the built-in alignment of the '
    'integration models on generated (log-)posteriors. Non-trivial: K >= 2 '
    'and (a tie in the scores / masks or F >= 3). Distinct = distinct '
    'recorded choice sequence.'
)


def _pa():
    import pb_bss.permutation_alignment as pa
    return pa


def is_perm_columns(mapping, K):
    m = np.asarray(mapping)
    if m.ndim == 1:
        m = m[:, None]
    m = m.reshape(K, -1)
    return all(sorted(int(x) for x in m[:, j]) == list(range(K))
               for j in range(m.shape[1]))


# ------------------------------------------------------------ score matrices

def _grid():
    for K in (1, 2, 3):
        for is_float in (0, 1):
            for vals in itertools.product(range(3), repeat=K * K):
                yield [['i', K, 1], ['i', is_float, 0], ['a', list(vals), 0]]


@subcheck(SUBCHECKS, 'score_grid_exhaustive', quick=0, thorough=0,
          shards_quick=16, shards_thorough=16, exhaustive=lambda tier: _grid())
def score_grid(d, ctx):
    pa = _pa()
    K = d.int(1, 3)
    is_float = d.bool()
    vals = d.ints(K * K, 2)
    score = np.array(vals, dtype=np.float64 if is_float else np.int64).reshape(K, K)
    before = score.copy()
    for algo in ('greedy', 'optimal'):
        m = ctx.lib(pa._mapping_from_score_matrix, score, algo)
        require(np.shape(m) == (K,), 'mapping-shape', f'{np.shape(m)}')
        require(is_perm_columns(m, K), f'{algo}-assignment-is-not-a-permutation',
                f'score={score.tolist()} mapping={np.asarray(m).tolist()}', algorithm=algo)
    require(np.array_equal(score, before), 'score-matrix-modified', '')
    ctx.nontrivial(K >= 2)
    ctx.label(f'K={K}', 'float' if is_float else 'int')
    ctx.describe(K=K, score=score.tolist())


@subcheck(SUBCHECKS, 'score_generated', quick=900, thorough=15000, fuzz=6000)
def score_generated(d, ctx):
    pa = _pa()
    K = d.int(1, 6)
    lead = tuple(d.int(1, 5) for _ in range(d.choice([0, 1, 1, 2])))
    kind = d.choice(['int-small', 'int8', 'float-small', 'float-cont', 'constant',
                     'float-extreme'])
    shape = (*lead, K, K)
    if kind == 'int-small':
        score = d.small_array(shape, [0, 1, 2]).astype(np.int64)
    elif kind == 'int8':
        score = d.small_array(shape, [-128, -1, 0, 127]).astype(np.int8)
    elif kind == 'float-small':
        score = d.small_array(shape, [0.0, 0.5, 1.0, -1.0]).astype(
            d.choice([np.float64, np.float32]))
    elif kind == 'constant':
        score = np.full(shape, d.choice([0.0, 1.0, -3.0]))
    elif kind == 'float-extreme':
        # "every finite score matrix": the ends of the floating-point range are
        # finite (log-masks passed through nan_to_num, clipped scores)
        dt = d.choice([np.float64, np.float32])
        fi = np.finfo(dt)
        score = d.small_array(shape, [float(fi.min), float(fi.max), float(fi.min) / 2,
                                      0.0, 1.0, -1.0, float(fi.tiny)]).astype(dt)
    else:
        score = d.rng().normal(size=shape)
    algo = d.choice(['greedy', 'optimal'])
    m = ctx.lib(pa._mapping_from_score_matrix, score, algo)
    require(np.shape(m) == (K, *lead), 'mapping-shape', f'{np.shape(m)} for {shape}')
    if algo == 'greedy' and score.dtype.kind == 'i' and \
            np.any(score == np.iinfo(score.dtype).min) and not is_perm_columns(m, K):
        raise Violation(
            'greedy-integer-sentinel-collision',
            f'{score.dtype} score matrix containing iinfo.min: assignment '
            f'{np.asarray(m).reshape(K, -1)[:, 0].tolist()} is not a permutation',
            dtype='signed-integer', contains='iinfo.min')
    require(is_perm_columns(m, K), f'{algo}-assignment-is-not-a-permutation',
            f'kind={kind} lead={lead}', algorithm=algo)
    ctx.describe(K=K, lead=lead, kind=kind, algorithm=algo)
    ctx.keep(score=score)
    ctx.nontrivial(K >= 2)
    ctx.label(f'K={K}', kind, algo)


# ----------------------------------------------------------------- aligners

def draw_mask(d, K, F, T):
    kind = d.choice(['alphabet', 'alphabet', 'continuous', 'posterior',
                     'constant-rows', 'zero'])
    dt = d.choice([np.float64, np.float64, np.float32, np.int8, np.int64])
    if kind == 'alphabet':
        m = d.small_array((K, F, T), [0, 0.5, 1, 2])
    elif kind == 'continuous':
        m = d.rng().uniform(0, 1, size=(K, F, T))
    elif kind == 'posterior':
        m = d.rng().dirichlet(np.ones(K), size=(F, T)).transpose(2, 0, 1)
    elif kind == 'constant-rows':
        m = np.ones((K, F, T)) * d.small_array((K, 1, 1), [0, 1, 2])
    else:
        m = np.zeros((K, F, T))
    if np.issubdtype(dt, np.integer):
        m = np.round(m * (1 if kind == 'alphabet' else 3)).astype(dt)
    else:
        m = m.astype(dt)
        # "all real masks": also large and small magnitudes (a power spectrum
        # instead of a posterior) - the order of the classes does not depend
        # on the unit
        scale = [1.0, 1.0, 1e3, 1e6, 1e9, 1e-6][int(d.aux(142).integers(0, 6))]
        if scale != 1.0 and (dt == np.float64 or scale in (1e3, 1e-6)):
            m = (m * dt(scale)).astype(dt)
    # the same values behind another memory layout (as a posterior (F, K, T)
    # transposed to (K, F, T) would be)
    m = gen.vary(d, m, 141)
    return m, kind, np.dtype(dt).name


def draw_dhtv(d, F, pa):
    stft_size = 2 * (F - 1)
    start = d.int(0, F - 1)
    width = d.int(1, F - start)
    shift = d.int(1, max(1, width))
    metric = d.choice(['cos', 'euclidean', 'multiply'])
    algorithm = d.choice(['greedy', 'optimal'])
    cfg = dict(stft_size=stft_size, segment_start=start, segment_width=width,
               segment_shift=shift, main_iterations=d.int(1, 4),
               sub_iterations=d.int(1, 3), similarity_metric=metric,
               algorithm=algorithm)
    return pa.DHTVPermutationAlignment(**cfg), cfg


def check_alignment(ctx, aligner, mask, args, K, F, name):
    before = mask.copy()
    mask_ro = mask.copy()
    mask_ro.setflags(write=False)
    mapping = ctx.lib(aligner.calculate_mapping, mask_ro, *args,
                      clause=f'{name}-raises')
    require(np.array_equal(mask_ro, before), 'input-mask-modified', name, aligner=name)
    mapping = np.asarray(mapping)
    require(mapping.shape == (K, F), 'mapping-shape', f'{mapping.shape} != {(K, F)}',
            aligner=name)
    require(is_perm_columns(mapping, K), 'mapping-is-not-a-permutation-per-bin',
            f'{name}: {mapping.tolist()}', aligner=name)
    out = ctx.lib(aligner.apply_mapping, mask, mapping)
    exp = np.empty_like(mask)
    for f in range(F):
        for k in range(K):
            exp[k, f] = mask[mapping[k, f], f]
    require(out.shape == mask.shape and np.array_equal(out, exp),
            'apply_mapping-is-not-row-selection', name, aligner=name)
    # per-bin multiset of rows and class sums are preserved
    for f in range(F):
        a = sorted(map(tuple, np.asarray(mask[:, f]).reshape(K, -1).tolist()))
        b = sorted(map(tuple, np.asarray(out[:, f]).reshape(K, -1).tolist()))
        require(a == b, 'row-multiset-changed', f'{name} bin {f}', aligner=name)
    called = ctx.lib(aligner, mask.copy(), *args, clause=f'{name}-call-raises')
    require(np.array_equal(called, out), 'call-differs-from-calculate-then-apply',
            name, aligner=name)
    require(np.array_equal(mask, before), 'input-mask-modified', name, aligner=name)
    return mapping


@subcheck(SUBCHECKS, 'aligners', quick=1500, thorough=25000, fuzz=4000)
def aligners(d, ctx):
    pa = _pa()
    K = d.int(1, 6)
    F = 2 * d.int(0, 10) + 1
    T = d.int(1, 8)
    mask, mkind, dt = draw_mask(d, K, F, T)
    which = d.choice(['dhtv', 'dhtv', 'greedy', 'oracle'])
    ctx.keep(mask=mask)
    args = ()
    if which == 'dhtv':
        aligner, cfg = draw_dhtv(d, F, pa)
        desc = cfg
    elif which == 'greedy':
        metric = d.choice(['cos', 'euclidean', 'multiply'])
        aligner = pa.GreedyPermutationAlignment(similarity_metric=metric)
        desc = dict(metric=metric)
    else:
        metric = d.choice(['cos', 'euclidean', 'multiply'])
        algo = d.choice(['greedy', 'optimal'])
        aligner = pa.OraclePermutationAlignment(similarity_metric=metric, algorithm=algo)
        ref, _, _ = draw_mask(d, K, F, T)
        if np.issubdtype(mask.dtype, np.integer) and not np.issubdtype(ref.dtype, np.integer):
            # a scaled float reference does not fit an integer dtype
            ref = np.asarray(ref, dtype=np.float64)
            ref = np.clip(np.round(ref / max(float(np.max(np.abs(ref))), 1e-30) * 3), -3, 3)
        args = (ref.astype(mask.dtype),)
        desc = dict(metric=metric, algorithm=algo)
    ctx.describe(K=K, F=F, T=T, mask=mkind, dtype=dt, aligner=which, config=desc)
    ctx.label(which, f'mask={mkind}', f'dtype={dt}', f'K={K}')
    check_alignment(ctx, aligner, mask, args, K, F, which)
    ctx.nontrivial(K >= 2 and (F >= 3 or mkind in ('alphabet', 'constant-rows', 'zero')))


# ------------------------------------------------- alignment applied inside EM

@subcheck(SUBCHECKS, 'inline_em_alignment', quick=500, thorough=8000)
def inline_em_alignment(d, ctx):
    from pb_bss.distribution.mixture_model_utils import \
        apply_inline_permutation_alignment
    pa = _pa()
    K = d.int(1, 5)
    F = 2 * d.int(0, 6) + 1
    T = d.int(1, 8)
    rng = d.rng()
    kind = d.choice(['posterior', 'alphabet'])
    if kind == 'posterior':
        aff = rng.dirichlet(np.ones(K), size=(F, T)).transpose(0, 2, 1)
    else:
        aff = d.small_array((F, K, T), [0.0, 0.5, 1.0])
    q = rng.uniform(0.1, 5, size=(F, K, T))
    wca = d.choice([(-3,), (-3, -1), -3])
    which = d.choice(['dhtv', 'greedy'])
    if which == 'dhtv':
        aligner, cfg = draw_dhtv(d, F, pa)
    else:
        aligner = pa.GreedyPermutationAlignment(
            similarity_metric=d.choice(['cos', 'euclidean', 'multiply']))
        cfg = {}
    with_q = d.bool()
    ctx.describe(K=K, F=F, T=T, aligner=which, config=cfg, with_quadratic_form=with_q,
                 weight_constant_axis=wca)
    a0, q0 = aff.copy(), q.copy()
    if with_q:
        a1, q1 = ctx.lib(apply_inline_permutation_alignment, affiliation=aff,
                         quadratic_form=q, weight_constant_axis=wca, aligner=aligner)
    else:
        a1 = ctx.lib(apply_inline_permutation_alignment, affiliation=aff,
                     weight_constant_axis=wca, aligner=aligner)
        q1 = None
    require(np.array_equal(aff, a0) and np.array_equal(q, q0), 'inputs-modified', '')
    require(a1.shape == aff.shape, 'shape', f'{a1.shape}')
    for f in range(F):
        ok = False
        for perm in itertools.permutations(range(K)):
            p = list(perm)
            if np.array_equal(a1[f], aff[f][p]) and (
                    q1 is None or np.array_equal(q1[f], q[f][p])):
                ok = True
                break
        require(ok, 'posterior-and-quadratic-form-not-one-common-permutation',
                f'bin {f} aligner={which}', aligner=which)
    ctx.nontrivial(K >= 2 and F >= 3)
    ctx.label(which, f'q={with_q}', kind)


@subcheck(SUBCHECKS, 'integration_builtin_alignment', quick=500, thorough=8000)
def integration_builtin_alignment(d, ctx):
    from pb_bss.distribution.mixture_model_utils import (
        log_pdf_to_affiliation,
        log_pdf_to_affiliation_for_integration_models_with_inline_pa)
    K = d.int(1, 4)
    F = d.int(1, 5)
    T = d.int(1, 8)
    rng = d.rng()
    scale = d.choice([0.5, 5.0, 50.0])
    spatial = rng.normal(size=(F, K, T)) * scale
    spectral = rng.normal(size=(F, K, T)) * scale
    if d.bool():
        # spectral stream prefers a permuted order in some bins
        for f in range(F):
            p = rng.permutation(K)
            spectral[f] = spatial[f][p] + 0.1 * rng.normal(size=(K, T))
    wk = d.choice(['uniform', 'fk', 'k'])
    if wk == 'uniform':
        weight = np.asarray(1.0 / K)
    elif wk == 'fk':
        weight = rng.dirichlet(np.ones(K), size=F)[..., None]
    else:
        weight = rng.dirichlet(np.ones(K))[None, :, None]
    eps = d.choice([0.0, 1e-10, 1e-3])
    s0, e0 = spatial.copy(), spectral.copy()
    out = ctx.lib(log_pdf_to_affiliation_for_integration_models_with_inline_pa,
                  weight, spatial, spectral, affiliation_eps=eps)
    ctx.describe(K=K, F=F, T=T, weight=wk, eps=eps, scale=scale)
    require(np.array_equal(spatial, s0) and np.array_equal(spectral, e0),
            'inputs-modified', '')
    require(out.shape == (F, K, T), 'shape', f'{out.shape}')

    def aux(lp):
        a = lp - lp.max(axis=-2, keepdims=True)
        a = np.exp(a)
        a = a / np.maximum(a.sum(axis=-2, keepdims=True), np.finfo(float).tiny)
        return float(np.sum(a * lp))

    for f in range(F):
        wf = np.broadcast_to(weight, (F, K, T))[f]
        found = None
        for perm in itertools.permutations(range(K)):
            p = list(perm)
            lp = spatial[f][p] + spectral[f]
            m = lp.max(axis=-2, keepdims=True)
            post = wf * np.exp(lp - m)
            post = post / np.maximum(post.sum(axis=-2, keepdims=True), np.finfo(float).tiny)
            if eps:
                post = np.clip(post, eps, 1 - eps)
            if np.allclose(out[f], post, rtol=0, atol=1e-12):
                # several permutations can give the same (clipped) posterior:
                # keep the best one under the library's own criterion
                c = aux(lp)
                if found is None or c > found:
                    found = c
        require(found is not None, 'posterior-is-no-class-permutation-of-the-streams',
                f'bin {f}')
        c_id = aux(spatial[f] + spectral[f])
        require(found >= c_id - 1e-9 * (1 + abs(c_id)),
                'chosen-permutation-worse-than-identity',
                f'bin {f}: {found} < {c_id}')
    ctx.nontrivial(K >= 2)
    ctx.label(f'K={K}', wk)
