"""C13 - beamforming helpers agree with their primitives and act per leading
index."""
import numpy as np

from pbv import gen
from pbv.core import Borderline, Rejected, Violation, require, require_close, subcheck
from pbv.oracles import beamforming as ob

SUBCHECKS = []
RULE = (
    'Names: the 12 named cores and ch<N>, each with and without +ban '
    '(enumerated completely per tier in wrapper_names_exhaustive), invalid '
    'names must raise; explicit reference channels, atf_kwargs; 0..2 extra '
    'leading axes, F 1..32, D 2..8, HPD PSDs (cond <= 1e4). Oracles: own '
    'composition of the public primitives, loop-level w^H x, stacked call vs '
    'per-slice calls for every beamforming function, phase_correction '
    'identities per leading index (F >= 3, incl. zero and orthogonal '
    'neighbours), Souden/WMWF on any subset of bins made singular or zero; '
    'the remaining public functions (zero_degree / distortionless '
    'normalisation, SNR post-filter, online apply, get_pca with all vectors, '
    'LCMV, rank-one estimates) against loop formulas and bin by bin. '
    'Non-trivial: an extra leading axis or F >= 3 with a composed name. '
    'Distinct = distinct recorded choice sequence.'
)

CORES = ['pca', 'pca+mvdr', 'scaled_gev_atf+mvdr', 'mvdr_souden',
         'rank1_pca+mvdr_souden', 'rank1_gev+mvdr_souden', 'gev',
         'rank1_pca+gev', 'rank1_gev+gev', 'wmwf', 'rank1_pca+wmwf',
         'rank1_gev+wmwf']


def _mods():
    import pb_bss.extraction.beamformer as bf
    import pb_bss.extraction.beamformer_wrapper as bw
    return bf, bw


def _rank1(bf, kind, xx, nn, atf_kwargs):
    if kind == 'rank1_pca':
        a = bf.get_pca_vector(xx, **atf_kwargs)
    else:
        a = np.einsum('...dD,...D->...d', nn, bf.get_gev_vector(xx, nn, **atf_kwargs))
    outer = np.einsum('...d,...D->...dD', a, a.conj())
    scale = np.trace(xx, axis1=-1, axis2=-2) / np.trace(outer, axis1=-1, axis2=-2)
    return scale[..., None, None] * outer


def compose(bf, name, xx, nn, kw):
    """the composition of public primitives the name spells"""
    kw = dict(kw)
    atf_kwargs = kw.pop('atf_kwargs', {})
    ban = name.endswith('+ban')
    core = name[:-4] if ban else name
    if core == 'pca':
        w = bf.get_pca_vector(xx, **kw)
    elif core == 'pca+mvdr':
        w = bf.get_mvdr_vector(bf.get_pca_vector(xx, **atf_kwargs), nn)
    elif core == 'scaled_gev_atf+mvdr':
        a = np.einsum('...dD,...D->...d', nn, bf.get_gev_vector(xx, nn, **atf_kwargs))
        w = bf.get_mvdr_vector(a, nn)
    elif core.startswith('ch') and core[2:].isdigit():
        D = xx.shape[-1]
        e = np.zeros(D)
        e[int(core[2:])] = 1
        w = np.broadcast_to(e, xx.shape[:-1])
    else:
        parts = core.split('+')
        if len(parts) == 2:
            xx = _rank1(bf, parts[0], xx, nn, atf_kwargs)
        fn = {'mvdr_souden': bf.get_mvdr_vector_souden, 'gev': bf.get_gev_vector,
              'wmwf': bf.get_wmwf_vector}[parts[-1]]
        w = fn(xx, nn, **kw)
    if ban:
        w = bf.blind_analytic_normalization(w, nn)
    return w


def _kwargs_for(d, core, D, explicit_ref):
    kw = {}
    if 'souden' in core:
        if explicit_ref:
            kw['ref_channel'] = d.int(0, D - 1)
    if 'wmwf' in core:
        if explicit_ref:
            kw['reference_channel'] = d.int(0, D - 1)
        if d.bool():
            kw['distortion_weight'] = d.choice([0.0, 0.5, 1.0, 10.0])
    if core in ('gev',) and d.bool():
        kw['use_eig'] = d.bool()
    if core == 'pca' and d.bool():
        kw['scaling'] = d.choice(['trace', 'eigenvalue'])
    if '+' in core and d.bool():
        if core.startswith(('pca', 'rank1_pca')):
            kw['atf_kwargs'] = {'scaling': d.choice(['trace', 'eigenvalue'])}
        else:
            kw['atf_kwargs'] = {'use_eig': d.bool()}
    return kw


def _problem(d, rng, extra, F, D, cond_max=4):
    cond = d.log10(0, cond_max)
    nn = gen.hpd(rng, D, cond, 1.0, (*extra, F)) * \
        10 ** rng.uniform(-2, 2, size=(*extra, F, 1, 1))
    if d.bool():
        a = gen.cnormal(rng, (*extra, F, D, 1))
        xx = a @ np.swapaxes(a.conj(), -1, -2) + \
            1e-3 * gen.hpd(rng, D, 10, 1.0, (*extra, F))
    else:
        xx = gen.hpd(rng, D, d.log10(0, 3), 1.0, (*extra, F))
    # same values behind another memory layout (transposed / Fortran / strided
    # views, leading axes stored in the other order)
    return gen.vary(d, xx, 131), gen.vary(d, gen.structure(d, nn, 139), 132), cond


def _run_name(d, ctx, core, ban):
    bf, bw = _mods()
    extra = tuple(d.int(1, 3) for _ in range(d.int(0, 2)))
    F = d.choice([1, 2, 3, 5, 8, 32]) if d.bool() else d.int(1, 10)
    D = d.int(2, 8)
    rng = d.rng()
    xx, nn, cond = _problem(d, rng, extra, F, D)
    if core == 'ch':
        core = f'ch{d.int(0, D - 1)}'
    name = core + ('+ban' if ban else '')
    explicit = bool(extra) or d.bool()
    kw = _kwargs_for(d, core, D, explicit)
    ctx.describe(name=name, extra=extra, F=F, D=D, kwargs=kw, cond=cond)
    ctx.label(core if not core.startswith('ch') else 'ch<N>',
              'ban' if ban else 'no-ban', f'extra={len(extra)}')
    import copy
    got = ctx.lib(bw.get_bf_vector, name, xx, nn, **copy.deepcopy(kw))
    ref = ctx.lib(compose, bf, name, xx, nn, copy.deepcopy(kw),
                  clause='primitive-composition-raises')
    require(np.shape(got) == (*extra, F, D), 'wrapper-shape', f'{np.shape(got)}')
    require_close(got, ref, 'wrapper-differs-from-primitive-composition',
                  rtol=1e-10, atol=0, what=name, name=core if not core.startswith('ch') else 'ch')
    # the stacked call equals the stack of the per-slice calls
    if extra and not core.startswith('ch'):
        for idx in np.ndindex(*extra):
            one = ctx.lib(bw.get_bf_vector, name, xx[idx], nn[idx],
                          **copy.deepcopy(kw))
            require_close(got[idx], one, 'wrapper-stack-differs-from-slice',
                          rtol=1e-8 * cond, atol=0, what=f'{name} idx={idx}')
    ctx.nontrivial(bool(extra) or (F >= 3 and '+' in name))


@subcheck(SUBCHECKS, 'wrapper_names', quick=1800, thorough=15000, fuzz=3000)
def wrapper_names(d, ctx):
    core = d.choice(CORES + ['ch'])
    _run_name(d, ctx, core, d.bool())


def _names_exhaustive(tier):
    reps = 2 if tier == 'quick' else 12
    for ci in range(len(CORES) + 1):
        for ban in (0, 1):
            for r in range(reps):
                yield [['i', ci, 0], ['i', ban, 0], ['s', 1000 * ci + 10 * r + ban, 0],
                       ['i', r % 3, 0], ['i', 1 + r % 3, 1], ['i', 1 + r % 2, 1]]


@subcheck(SUBCHECKS, 'wrapper_names_exhaustive', quick=0, thorough=0,
          shards_quick=4, shards_thorough=8, exhaustive=_names_exhaustive)
def wrapper_names_exhaustive(d, ctx):
    ci = d.int(0, len(CORES))
    ban = d.bool()
    core = (CORES + ['ch'])[ci]
    # a fixed small problem per name (seeded), drawn structure afterwards
    bf, bw = _mods()
    rng = d.rng()
    n_extra = d.int(0, 2)
    extra = tuple(d.int(1, 3) for _ in range(n_extra))
    F, D = 4, 3
    xx, nn, cond = gen.hpd(rng, D, 10, 1.0, (*extra, F)), \
        gen.hpd(rng, D, 10, 1.0, (*extra, F)), 10
    if core == 'ch':
        core = 'ch1'
    name = core + ('+ban' if ban else '')
    kw = {}
    if 'souden' in core:
        kw['ref_channel'] = 1
    if 'wmwf' in core:
        kw['reference_channel'] = 2
    got = ctx.lib(bw.get_bf_vector, name, xx, nn, **kw)
    ref = ctx.lib(compose, bf, name, xx, nn, kw)
    require_close(got, ref, 'wrapper-differs-from-primitive-composition',
                  rtol=1e-10, what=name)
    ctx.describe(name=name, extra=extra)
    ctx.nontrivial(True)
    ctx.label(name)


@subcheck(SUBCHECKS, 'invalid_names', quick=300, thorough=1500, fuzz=3000, min_nontrivial=0.0)
def invalid_names(d, ctx):
    bf, bw = _mods()
    pool = ['', 'mvdr', 'gev+ban+ban', 'ban', 'pca+gev', 'rank1+gev', 'souden',
            'mvdr_souden+', 'rank1_pca+pca', 'ch', 'chx', 'wmwf+mvdr',
            'rank1_gev+mvdr', 'GEV', 'gev_ban', 'pca+mvdr_souden', 'ch-1']
    name = d.choice(pool)
    rng = d.rng()
    xx, nn = gen.hpd(rng, 3, 10, 1.0, (4,)), gen.hpd(rng, 3, 10, 1.0, (4,))
    ctx.describe(name=name)
    try:
        out = bw.get_bf_vector(name, xx, nn)
    except (ValueError, AssertionError):
        ctx.nontrivial(True)
        return
    except Exception as e:  # noqa
        raise Violation('invalid-name-wrong-exception', f'{name!r}: {type(e).__name__}: {e}')
    raise Violation('invalid-name-accepted', f'{name!r} returned shape {np.shape(out)}')


@subcheck(SUBCHECKS, 'apply_and_stack', quick=1400, thorough=12000)
def apply_and_stack(d, ctx):
    """apply_beamforming_vector and every primitive: stack == slices"""
    bf, bw = _mods()
    extra = tuple(d.int(1, 3) for _ in range(d.int(1, 2)))
    F = d.int(1, 8)
    D = d.int(2, 6)
    T = d.int(1, 9)
    rng = d.rng()
    which = d.choice(['apply', 'pca', 'gev', 'mvdr', 'souden', 'wmwf', 'ban',
                      'phase_correction', 'condition_covariance'])
    xx, nn, cond = _problem(d, rng, extra, F, D)
    w = gen.cnormal(rng, (*extra, F, D))
    x = gen.cnormal(rng, (*extra, F, D, T))
    ctx.describe(which=which, extra=extra, F=F, D=D, T=T)
    ctx.label(which, f'extra={len(extra)}')
    ref_ch = d.int(0, D - 1)
    mu = d.choice([0.0, 1.0, 7.0])
    gamma = d.choice([0.0, 0.01, 1.0])

    def call(sl):
        if which == 'apply':
            return bf.apply_beamforming_vector(w[sl], x[sl])
        if which == 'pca':
            return bf.get_pca_vector(xx[sl])
        if which == 'gev':
            return bf.get_gev_vector(xx[sl], nn[sl])
        if which == 'mvdr':
            return bf.get_mvdr_vector(w[sl], nn[sl])
        if which == 'souden':
            return bf.get_mvdr_vector_souden(xx[sl], nn[sl], ref_channel=ref_ch)
        if which == 'wmwf':
            return bf.get_wmwf_vector(xx[sl], nn[sl], reference_channel=ref_ch,
                                      distortion_weight=mu)
        if which == 'ban':
            return bf.blind_analytic_normalization(w[sl], nn[sl])
        if which == 'phase_correction':
            return bf.phase_correction(w[sl])
        return bf.condition_covariance(xx[sl], gamma)

    full = ctx.lib(call, ())
    per_bin = which not in ('phase_correction',)
    gauge = which in ('pca', 'gev')     # eigenvectors: compare projectors
    for idx in np.ndindex(*extra):
        one = ctx.lib(call, idx)
        a, b = full[idx], one
        if gauge:
            a = np.einsum('...d,...e->...de', a, a.conj())
            b = np.einsum('...d,...e->...de', b, b.conj())
        require_close(a, b, 'stack-differs-from-slice', rtol=1e-8 * cond, atol=1e-300,
                      what=f'{which} idx={idx}', which=which)
    if per_bin:
        f = d.int(0, F - 1)
        sl = (*[slice(None)] * len(extra), slice(f, f + 1))
        one = ctx.lib(call, sl)
        a, b = full[sl], one
        if gauge:
            a = np.einsum('...d,...e->...de', a, a.conj())
            b = np.einsum('...d,...e->...de', b, b.conj())
        require_close(a, b, 'bins-are-not-independent', rtol=1e-8 * cond, atol=1e-300,
                      what=f'{which} bin {f}', which=which)
    if which == 'apply':
        for idx in np.ndindex(*extra, F):
            ref = np.array([w[idx].conj() @ x[idx][:, t] for t in range(T)])
            require_close(full[idx], ref, 'apply-is-not-w^H-x', rtol=1e-12, atol=1e-300)
    ctx.nontrivial(True)


@subcheck(SUBCHECKS, 'auxiliary_functions', quick=1000, thorough=8000)
def auxiliary_functions(d, ctx):
    """the remaining public beamforming functions: loop-level formula and
    stack == individual problems (over the bin axis for the functions whose
    signature has one leading axis only)"""
    bf, bw = _mods()
    which = d.choice(['zero_degree', 'distortionless', 'snr_postfilter', 'online',
                      'get_pca', 'lcmv', 'rank_one_pca', 'rank_one_gev'])
    F = d.int(1, 8)
    D = d.int(2, 6)
    T = d.int(1, 7)
    rng = d.rng()
    extra = tuple(d.int(1, 3) for _ in range(d.int(0, 2))) \
        if which in ('zero_degree', 'get_pca', 'rank_one_pca', 'rank_one_gev') else ()
    xx, nn, cond = _problem(d, rng, extra, F, D)
    w = gen.cnormal(rng, (*extra, F, D))
    a = gen.cnormal(rng, (*extra, F, D))
    ctx.describe(which=which, extra=extra, F=F, D=D, T=T)
    ctx.label(which, f'extra={len(extra)}')
    tol = dict(rtol=1e-9 * cond, atol=1e-300)
    f = d.int(0, F - 1)
    one = slice(f, f + 1)
    if which == 'zero_degree':
        ref = d.int(0, D - 1)
        ref_arg = ref - D if d.bool() else ref
        out = ctx.lib(bf.zero_degree_normalization, w, ref_arg)
        require(np.shape(out) == w.shape, 'zero-degree-shape', f'{np.shape(out)}')
        require_close(np.abs(out), np.abs(w), 'zero-degree-changes-magnitudes', rtol=1e-12)
        require(np.max(np.abs(out[..., ref].imag)) <= 1e-12 * np.max(np.abs(w)) and
                np.all(out[..., ref].real >= 0),
                'zero-degree-reference-channel-not-real-non-negative', '')
        # one common phase factor per vector
        ratio = out * np.abs(w[..., [ref]]) - w * np.conj(w[..., [ref]])
        require(np.max(np.abs(ratio)) <= 1e-10 * np.max(np.abs(w)) ** 2,
                'zero-degree-not-a-common-phase-factor', f'{np.max(np.abs(ratio)):.3e}')
        for idx in np.ndindex(*extra, F):
            require_close(out[idx], ctx.lib(bf.zero_degree_normalization, w[idx], ref_arg),
                          'stack-differs-from-slice', rtol=1e-12, which=which)
    elif which == 'distortionless':
        out = ctx.lib(bf.distortionless_normalization, w, a, nn)
        exp = np.empty((F, D), dtype=complex)
        for i in range(F):
            exp[i] = (nn[i] @ w[i]) * (w[i].conj() @ a[i]) / (w[i].conj() @ nn[i] @ w[i])
        require_close(out, exp, 'distortionless-normalization-formula', **tol)
        require_close(out[one], ctx.lib(bf.distortionless_normalization, w[one], a[one], nn[one]),
                      'bins-are-not-independent', which=which, **tol)
    elif which == 'snr_postfilter':
        out = ctx.lib(bf.mvdr_snr_postfilter, w, xx, nn)
        exp = np.array([[(w[i].conj() @ xx[i] @ w[i]) / (w[i].conj() @ nn[i] @ w[i])]
                        for i in range(F)])
        require_close(out, exp, 'snr-postfilter-formula', **tol)
        require_close(out[one], ctx.lib(bf.mvdr_snr_postfilter, w[one], xx[one], nn[one]),
                      'bins-are-not-independent', which=which, **tol)
    elif which == 'online':
        v = gen.cnormal(rng, (T, F, D))
        x = gen.cnormal(rng, (F, D, T))
        out = ctx.lib(bf.apply_online_beamforming_vector, v, x)
        exp = np.array([[v[t, i].conj() @ x[i, :, t] for t in range(T)] for i in range(F)])
        require_close(out, exp, 'online-apply-is-not-w_t^H-x_t', rtol=1e-12, atol=1e-300)
        require_close(out[one], ctx.lib(bf.apply_online_beamforming_vector, v[:, one], x[one]),
                      'bins-are-not-independent', rtol=1e-12, atol=1e-300, which=which)
    elif which == 'get_pca':
        all_vecs = d.bool()
        vec, val = ctx.lib(bf.get_pca, xx, return_all_vecs=all_vecs)
        for idx in np.ndindex(*extra, F):
            ev, U = np.linalg.eigh(xx[idx])
            if all_vecs:
                require(np.shape(vec) == xx.shape and np.shape(val) == xx.shape[:-1],
                        'get-pca-shape', f'{np.shape(vec)} {np.shape(val)}')
                require_close(val[idx], ev, 'get-pca-eigenvalues', rtol=1e-10 * cond)
                res = xx[idx] @ vec[idx] - vec[idx] * val[idx][None, :]
                require(np.max(np.abs(res)) <= 1e-9 * cond * ev.max(),
                        'get-pca-not-eigenvectors', f'{np.max(np.abs(res)):.3e}')
            else:
                require(np.shape(vec) == xx.shape[:-1] and np.shape(val) == xx.shape[:-2],
                        'get-pca-shape', f'{np.shape(vec)} {np.shape(val)}')
                require_close(val[idx], ev[-1], 'get-pca-eigenvalues', rtol=1e-10 * cond)
                res = xx[idx] @ vec[idx] - ev[-1] * vec[idx]
                require(np.max(np.abs(res)) <= 1e-9 * cond * ev.max(),
                        'get-pca-not-eigenvectors', f'{np.max(np.abs(res)):.3e}')
            v1, e1 = ctx.lib(bf.get_pca, xx[idx], return_all_vecs=all_vecs)
            require_close(val[idx], e1, 'stack-differs-from-slice', rtol=1e-10 * cond,
                          which=which)
    elif which == 'lcmv':
        K = d.int(1, min(3, D - 1))
        atf = gen.cnormal(rng, (K, F, D))
        resp = np.zeros(K)
        resp[d.int(0, K - 1)] = 1.0
        out = ctx.lib(bf.get_lcmv_vector, atf, resp, nn)
        got = np.einsum('fd,kfd->kf', out.conj(), atf)
        require_close(got, np.broadcast_to(resp[:, None], (K, F)),
                      'lcmv-constraints', rtol=0, atol=1e-5 * cond)
        require_close(out[one], ctx.lib(bf.get_lcmv_vector, atf[:, one], resp, nn[one]),
                      'bins-are-not-independent', rtol=1e-5 * cond, atol=1e-300, which=which)
    else:
        if which == 'rank_one_pca':
            call = lambda sl: bw.get_pca_rank_one_estimate(xx[sl])           # noqa
        else:
            call = lambda sl: bw.get_gev_rank_one_estimate(xx[sl], nn[sl])   # noqa
        full = ctx.lib(call, ())
        require(np.shape(full) == xx.shape, 'rank-one-shape', f'{np.shape(full)}')
        for idx in np.ndindex(*extra):
            require_close(full[idx], ctx.lib(call, idx), 'stack-differs-from-slice',
                          rtol=1e-7 * cond, atol=1e-300, which=which)
        sl = (*[slice(None)] * len(extra), one)
        require_close(full[sl], ctx.lib(call, sl), 'bins-are-not-independent',
                      rtol=1e-7 * cond, atol=1e-300, which=which)
    ctx.nontrivial(F >= 2 or len(extra) > 0)


@subcheck(SUBCHECKS, 'phase_correction', quick=1200, thorough=10000)
def phase_correction(d, ctx):
    bf, bw = _mods()
    lead = tuple(d.int(1, 4) for _ in range(d.int(0, 2)))
    F = d.int(3, 12)
    D = d.int(2, 6)
    rng = d.rng()
    w = gen.cnormal(rng, (*lead, F, D)) * 10 ** rng.uniform(-3, 3, size=(*lead, F, 1))
    special = d.choice(['none', 'none', 'zero-bin', 'orthogonal', 'list-input',
                        'nearly-orthogonal'])
    if special == 'nearly-orthogonal':
        # neighbouring bins whose inner product is 1e-12..1e-6 of the product
        # of their norms: far above rounding (1e-16), so its phase is defined
        f = d.int(1, F - 1)
        prev = w[..., f - 1, :]
        u = gen.cnormal(rng, (*lead, D))
        pn = prev / np.linalg.norm(prev, axis=-1, keepdims=True)
        u = u - pn * np.einsum('...d,...d->...', pn.conj(), u)[..., None]
        c = 10 ** rng.uniform(-12, -6, size=(*lead, 1)) * \
            np.exp(2j * np.pi * rng.uniform(size=(*lead, 1)))
        w[..., f, :] = (u / np.linalg.norm(u, axis=-1, keepdims=True) + c * pn) * \
            10 ** rng.uniform(-3, 3, size=(*lead, 1))
    if special == 'zero-bin':
        w[..., d.int(0, F - 1), :] = 0
    elif special == 'orthogonal':
        f = d.int(1, F - 1)
        w[..., f, :] = 0
        w[..., f, 0] = 1
        w[..., f - 1, :] = 0
        w[..., f - 1, 1] = 1
    w_in = np.array(w)
    w_in.setflags(write=False)
    arg = w_in.tolist() if special == 'list-input' else w_in
    out = ctx.lib(bf.phase_correction, arg)
    ctx.describe(lead=lead, F=F, D=D, special=special)
    ctx.label(special, f'nlead={len(lead)}')
    require(np.array_equal(w_in, w), 'arguments-modified', '')
    require(np.shape(out) == w.shape, 'phase_correction-shape', f'{np.shape(out)}')
    require_close(np.abs(out), np.abs(w), 'phase_correction-changes-magnitudes',
                  rtol=1e-12, atol=1e-300)
    for idx in np.ndindex(*lead):
        o = out[idx]
        ip = np.einsum('fd,fd->f', o[1:].conj(), o[:-1])
        mag = np.abs(ip)
        scale = np.linalg.norm(o[1:], axis=-1) * np.linalg.norm(o[:-1], axis=-1)
        # the rotation is computed from the inner product itself: its phase is
        # exact up to the rounding of the D products (64 eps D |w_f||w_f-1|),
        # however small the inner product is relative to the norms
        noise = 64 * np.finfo(float).eps * D * scale
        ok = (np.abs(ip.imag) <= 1e-9 * mag + noise + 1e-300) & (ip.real >= -noise)
        require(np.all(ok), 'consecutive-bins-not-phase-aligned',
                f'idx={idx}: w_f^H w_f-1 = {ip[~ok][:2]}')
        # each bin is only rotated by a unit phasor
        nz = np.abs(w[idx]) > 0
        ratio = np.where(nz, o / np.where(nz, w[idx], 1), 1)
        j = np.argmax(np.abs(w[idx]), axis=-1)
        spread = np.abs(ratio - np.take_along_axis(ratio, j[:, None], axis=-1)) * nz
        require(np.all(spread <= 1e-9), 'bin-not-rotated-by-a-common-phasor', '')
    ctx.nontrivial(len(lead) >= 1 or special != 'none')


@subcheck(SUBCHECKS, 'singular_bins', quick=1400, thorough=12000)
def singular_bins(d, ctx):
    bf, bw = _mods()
    F = d.int(1, 10)
    D = d.int(2, 6)
    rng = d.rng()
    xx, nn, cond = _problem(d, rng, (), F, D, cond_max=3)
    bad = d.subset(F, 1, F)
    kinds = []
    for f in bad:
        k = d.choice(['noise-zero', 'target-zero', 'both-zero', 'noise-lowrank',
                      'target-lowrank', 'both-lowrank'])
        kinds.append(k)
        if k in ('noise-zero', 'both-zero'):
            nn[f] = 0
        if k in ('target-zero', 'both-zero'):
            xx[f] = 0
        if k in ('noise-lowrank', 'both-lowrank'):
            a = gen.cnormal(rng, (D, d.int(1, D - 1)))
            nn[f] = a @ a.conj().T
        if k in ('target-lowrank', 'both-lowrank'):
            a = gen.cnormal(rng, (D, d.int(1, D - 1)))
            xx[f] = a @ a.conj().T
    # single-precision PSD matrices in one case of four (guards taken from
    # the wrong dtype vanish there)
    single = d.aux(134).integers(0, 4) == 0
    if single:
        xx, nn = xx.astype(np.complex64), nn.astype(np.complex64)
        cond = max(cond, 1.0) * 1e4        # rounding of the coarser dtype
    which = d.choice(['souden', 'wmwf'])
    ref = d.int(0, D - 1)
    # the automatic reference channel ("Also zero matrices work") in one case
    # of four; it needs a three-dimensional input, which this is
    # (not together with a rank-deficient non-zero noise matrix: there the
    # filter matrix itself is not finite - the known finding - and the
    # selection refuses it with its isfinite assertion)
    if d.aux(133).integers(0, 3) == 0 and not any(
            k_ in ('noise-lowrank', 'both-lowrank') for k_ in kinds):
        ref = None
    mu = d.choice([1.0, 0.5, 10.0])
    ctx.describe(F=F, D=D, bad=bad, kinds=kinds, which=which, ref=ref)
    ctx.label(which, *set(kinds), 'complex64' if single else 'complex128')

    def call(x_, n_):
        if which == 'souden':
            return bf.get_mvdr_vector_souden(x_, n_, ref_channel=ref)
        return bf.get_wmwf_vector(x_, n_, reference_channel=ref, distortion_weight=mu)

    out = ctx.lib(call, xx, nn)
    require(np.shape(out) == (F, D), 'shape', f'{np.shape(out)}')
    if ref is None:
        # the reference channel is chosen once for all bins (so sub-stacks may
        # choose another one): only "finite on regular and zero bins" is judged
        ctx.label('automatic-reference-channel')
        for f in range(F):
            k_ = kinds[bad.index(f)] if f in bad else 'regular'
            if k_ in ('regular', 'noise-zero', 'target-zero', 'both-zero'):
                require(np.all(np.isfinite(out[f])), 'not-finite-on-singular-bin',
                        f'bin {f} ({k_}) with the automatic reference channel',
                        which=which, kind=k_)
        ctx.nontrivial(True)
        return
    # the same problems inside a stack with an extra leading axis, contiguous
    # and as a transposed (non-contiguous) view: every copy gives the result
    # of the single problem
    Kx = d.int(2, 3)
    layout = d.choice(['contiguous', 'transposed-view'])
    if layout == 'contiguous':
        xs, ns = np.stack([xx] * Kx), np.stack([nn] * Kx)
    else:
        xs = np.transpose(np.stack([xx] * Kx, axis=1).copy(), (1, 0, 2, 3))
        ns = np.transpose(np.stack([nn] * Kx, axis=1).copy(), (1, 0, 2, 3))
    stacked = ctx.lib(call, xs, ns)
    ctx.label(layout)
    # judged on the regular bins and on the bins with exact zeros; a bin with a
    # rank-deficient but non-zero matrix has an output of size 1e14.. that is
    # rounding noise amplified by 1/1e-16 (the known finding for Souden) and
    # differs between two evaluations by per cents
    stable = [f for f in range(F) if f not in bad] + \
        [f for f, k_ in zip(bad, kinds) if k_ in ('noise-zero', 'target-zero', 'both-zero')]
    for k in range(Kx):
        a, b = out[stable], stacked[k][stable]
        both = np.isfinite(a) & np.isfinite(b)
        require(np.array_equal(np.isfinite(a), np.isfinite(b)) and
                np.allclose(b[both], a[both], rtol=1e-9 * cond, atol=1e-300),
                'stack-with-singular-bins-differs-from-single-problem',
                f'{which} layout={layout} copy {k}', which=which, layout=layout)
    good = [f for f in range(F) if f not in bad]
    if good:
        alone = ctx.lib(call, xx[good], nn[good])
        require_close(out[good], alone, 'regular-bins-affected-by-singular-neighbours',
                      rtol=1e-9 * cond, atol=1e-300, which=which)
    for f, k in zip(bad, kinds):
        if np.all(np.isfinite(out[f])):
            continue
        if which == 'souden' and k in ('noise-lowrank', 'both-lowrank'):
            raise Violation(
                'souden-not-finite-for-rank-deficient-noise',
                f'bin {f} ({k}): {int(np.sum(~np.isfinite(out[f])))} non-finite '
                f'coefficients', noise='rank-deficient-nonzero')
        raise Violation('not-finite-on-singular-bin', f'{which} bin {f} ({k})',
                        which=which, kind=k)
    ctx.nontrivial(True)
