"""C04 - spatial models depend only on the direction of each observation.

Metamorphic relation: y -> c * y with an independent non-zero gain per
observation leaves every result unchanged up to rounding.
"""
import numpy as np

from pbv import gen, mm
from pbv.core import Borderline, Violation, require, require_close, subcheck

SUBCHECKS = []
RULE = (
    'Pairs (y, c*y): gains c = 10^u e^{i phi} with u uniform in [-100, 100] '
    'independently per observation and arbitrary phase (positive real gains '
    'for vMF/vMFMM and the embedding stream of vMF-cACGMM); observations '
    'without zero frames; all directional mixture trainers (fit, predict, '
    'fit_predict, cACGMM.log_likelihood) with every option, and the single '
    'distribution trainers / log_pdf entry points. Watson and Bingham '
    'log_pdf called directly are densities on the sphere that do not '
    'normalise their argument, they get unit-modulus gains only. '
    'Non-trivial: gains span >= 6 decades within the tensor and K >= 2 (mixtures) '
    '/ N >= 2. Distinct = distinct recorded choice sequence.'
)


def gains(d, rng, shape, complex_, span=100, prefer=None):
    u = rng.uniform(-span, span, size=shape)
    mode = d.choice(['wide', 'wide', 'narrow', 'tiny', 'huge', 'near-unity'])
    if prefer is not None and d.aux(41).integers(0, 2):
        mode = prefer
    if mode == 'near-unity':
        # level mismatch of a few ppm (e.g. observations that were normalised
        # in another precision)
        u = rng.uniform(-1, 1, size=shape) * 1e-6 * span / 100
    elif mode == 'narrow':
        u = u / span * 3
    elif mode == 'tiny':
        u = -np.abs(u)
    elif mode == 'huge':
        u = np.abs(u)
    g = 10.0 ** u
    if complex_:
        g = g * np.exp(2j * np.pi * rng.uniform(size=shape))
    return g, float(u.max() - u.min()), mode


def _mixture(d, ctx, kind, **kw):
    case = mm.draw_case(
        d, [kind], degenerate=False, single_precision=False, allow_scale=False,
        regular_share=False, general_position=True,
        positive_saliency_only=True, stable_only=True, **kw)
    ctx.describe(**case.describe())
    rng = d.rng()
    complex_obs = kind != 'vmfmm'
    pre_normalised = d.int(0, 3) == 0
    if pre_normalised:
        # observations that already have unit norm
        case.y = mm.normalize(case.y)
        ctx.label('pre-normalised')
    # observations that are already normalised meet gains of a few ppm in
    # every second such case (the level mismatch of a normalisation carried
    # out elsewhere, in another precision)
    g, span, mode = gains(d, rng, (*case.lead, case.N, 1), complex_obs,
                          prefer='near-unity' if pre_normalised else None)
    ys = case.y * g
    if d.epoch >= 3 and d.aux(42).integers(0, 5) == 0:
        # a recording normalised to unit average power as a whole (a common
        # pre-processing step): the squared norms of the vectors sum to their
        # number, although no single vector has unit norm
        tot = float(np.sum(np.abs(ys.astype(np.complex128 if complex_obs else np.float64)) ** 2))
        cnt = int(np.prod(ys.shape[:-1]))
        if np.isfinite(tot) and tot > 0 and mode in ('narrow', 'near-unity'):
            ys = ys * np.sqrt(cnt / tot)
            ys = ys * np.sqrt(cnt / float(np.sum(np.abs(ys) ** 2)))
            ctx.label('unit-average-power')
    scaled = case.copy(y=ys)
    if kind == 'vmfcacgmm':
        ge, _, _ = gains(d, rng, (*case.lead, case.N, 1), False)
        scaled.emb = case.emb * ge
    ctx.label(kind, f'gains={mode}', f'init={case.meta["init"]}')
    m1 = ctx.lib(mm.fit, case, allow_if=mm.explicit_refusal)
    if mm.ill_conditioned(m1, case):
        raise Borderline('fit sits on a numerical guard')
    m2 = ctx.lib(mm.fit, scaled, clause='scaled-input-raises')
    # (cBMM: everything downstream of the Bingham eigenvalues - weights of the
    # second iteration included - inherits the termination tolerance of the
    # iterative solver, two fits on inputs that differ by rounding agree to
    # about 1e-6)
    mm.compare_params(mm.params(m1, case), mm.params(m2, scaled),
                      'fit-depends-on-magnitude',
                      rtol=1e-5 if kind == 'cbmm' else 1e-7,
                      atol=1e-6 if kind == 'cbmm' else 1e-9, kind=kind)
    # predict of one model on both inputs, and both models on their input
    p11 = ctx.lib(mm.predict, m1, case)
    p12 = ctx.lib(mm.predict, m1, scaled)
    require_close(p11, p12, 'predict-depends-on-magnitude', atol=1e-7,
                  kind=kind)
    p22 = ctx.lib(mm.predict, m2, scaled)
    # two separately fitted Bingham models agree only to the termination
    # tolerance of the bounded least-squares solver (eigenvalues to ~1e-4,
    # compared at 1e-3 above); the posteriors inherit that
    two_fits = 1e-3 if kind == 'cbmm' else 1e-6
    require_close(p11, p22, 'fit-predict-depends-on-magnitude', atol=two_fits,
                  kind=kind)
    fp = ctx.lib(mm.fit, scaled, method='fit_predict')
    require_close(p11, fp, 'fit_predict-depends-on-magnitude', atol=two_fits,
                  kind=kind)
    if kind == 'cacgmm':
        l1 = float(ctx.lib(m1.log_likelihood, case.y))
        l2 = float(ctx.lib(m1.log_likelihood, scaled.y))
        require((l1 == l2) or abs(l1 - l2) <= 1e-8 * (1 + abs(l1)),
                'log_likelihood-depends-on-magnitude', f'{l1} vs {l2}',
                kind=kind)
    # class differences of the component log-densities
    lp1 = ctx.lib(mm.component_log_pdf, m1, case)
    lp2 = ctx.lib(mm.component_log_pdf, m1, scaled)
    d1 = lp1 - lp1[..., :1, :]
    d2 = lp2 - lp2[..., :1, :]
    if np.all(np.isfinite(d1)) and np.all(np.isfinite(d2)):
        require_close(d1, d2, 'log-density-differences-depend-on-magnitude',
                      atol=1e-7, rtol=1e-9, kind=kind)
    ctx.nontrivial((span >= 6 or mode == 'near-unity') and case.K >= 2)


def _make(kind, quick, thorough, **kw):
    @subcheck(SUBCHECKS, f'mixture_{kind}', quick=quick, thorough=thorough)
    def fn(d, ctx, _kind=kind, _kw=kw):
        _mixture(d, ctx, _kind, **_kw)
    return fn


_make('cacgmm', 400, 6000, max_iterations=8, max_K=4, max_D=6)
_make('cwmm', 300, 5000, max_iterations=8, max_K=4, max_D=6)
_make('cbmm', 60, 1000, max_K=2, max_D=3, max_iterations=2, max_lead=1)
_make('vmfmm', 250, 4000, max_iterations=8, max_K=4, max_D=6)
_make('gcacgmm', 250, 4000, max_K=3, max_D=5, max_iterations=6)
_make('vmfcacgmm', 250, 4000, max_K=3, max_D=5, max_iterations=6)


@subcheck(SUBCHECKS, 'single_distributions', quick=500, thorough=8000)
def single_distributions(d, ctx):
    import pb_bss.distribution as dist
    from pb_bss.distribution.complex_bingham import (ComplexBingham,
                                                     ComplexBinghamTrainer)
    which = d.choice(['cacg-fit', 'cacg-logpdf', 'watson-fit', 'watson-logpdf',
                      'bingham-fit', 'bingham-logpdf', 'vmf-fit', 'vmf-logpdf'])
    lead = gen.draw_lead(d)
    D = d.int(2, 6)
    N = d.int(2 * D, 2 * D + 20) if 'fit' in which else d.int(1, 8)
    rng = d.rng()
    complex_ = not which.startswith('vmf')
    if complex_:
        y = gen.cnormal(rng, (*lead, N, D)) + \
            gen.unit(gen.cnormal(rng, (*lead, 1, D))) * d.choice([0, 3.0])
    else:
        y = rng.normal(size=(*lead, N, D)) + \
            gen.unit(rng.normal(size=(*lead, 1, D))) * d.choice([0, 3.0])
    unit_only = which in ('watson-logpdf', 'bingham-logpdf')
    if unit_only:
        y = gen.unit(y)
        g = np.exp(2j * np.pi * rng.uniform(size=(*lead, N, 1)))
        span, mode = 0.0, 'phase-only'
    else:
        g, span, mode = gains(d, rng, (*lead, N, 1), complex_)
    ys = y * g
    ctx.describe(entry=which, lead=lead, D=D, N=N, gains=mode)
    ctx.label(which, f'gains={mode}')
    sal = None
    if 'fit' in which and d.bool() and not which.startswith('cacg'):
        sal = rng.uniform(0.2, 2, size=(*lead, N))
    if which == 'cacg-fit':
        kw = dict(covariance_norm=d.choice(['eigenvalue', 'trace', False]),
                  iterations=d.int(1, 8), hermitize=d.bool())
        a = ctx.lib(dist.ComplexAngularCentralGaussianTrainer().fit, y, **kw)
        b = ctx.lib(dist.ComplexAngularCentralGaussianTrainer().fit, ys, **kw)
        require_close(a.covariance, b.covariance, 'cacg-fit', rtol=1e-7)
    elif which == 'cacg-logpdf':
        B = gen.hpd(rng, D, d.log10(0, 6), 1.0, lead)
        m = dist.ComplexAngularCentralGaussian.from_covariance(B)
        a, b = ctx.lib(m.log_pdf, y), ctx.lib(m.log_pdf, ys)
        require_close(a, b, 'cacg-logpdf', atol=1e-7, rtol=1e-9)
    elif which == 'watson-fit':
        a = ctx.lib(dist.ComplexWatsonTrainer().fit, y, saliency=sal)
        b = ctx.lib(dist.ComplexWatsonTrainer().fit, ys, saliency=sal)
        pa_ = np.einsum('...d,...e->...de', a.mode, a.mode.conj())
        pb_ = np.einsum('...d,...e->...de', b.mode, b.mode.conj())
        require_close(pa_, pb_, 'watson-fit-mode', atol=1e-7)
        require_close(a.concentration, b.concentration, 'watson-fit-concentration',
                      rtol=1e-7, atol=1e-9)
    elif which == 'watson-logpdf':
        m = dist.ComplexWatson(mode=gen.unit(gen.cnormal(rng, (*lead, D))),
                               concentration=np.asarray(10 ** rng.uniform(-3, 2.5, size=lead)))
        a, b = ctx.lib(m.log_pdf, y), ctx.lib(m.log_pdf, ys)
        require_close(a, b, 'watson-logpdf-phase', atol=1e-9, rtol=1e-10)
    elif which == 'bingham-fit':
        a = ctx.lib(ComplexBinghamTrainer().fit, y, saliency=sal,
                    allow_if=mm.explicit_refusal)
        b = ctx.lib(ComplexBinghamTrainer().fit, ys, saliency=sal,
                    clause='scaled-input-raises')
        # iterative solver: agreement to its termination tolerance only
        require_close(a.covariance, b.covariance, 'bingham-fit', rtol=1e-3,
                      atol=1e-3)
    elif which == 'bingham-logpdf':
        lam = -np.sort(rng.uniform(0, 30, size=(*lead, D)), axis=-1)
        lam = lam - lam.max(axis=-1, keepdims=True)
        V = np.stack([gen.haar_unitary(rng, D) for _ in range(int(np.prod(lead, dtype=int)))]).reshape(*lead, D, D)
        m = ComplexBingham(V, lam)
        a, b = ctx.lib(m.log_pdf, y), ctx.lib(m.log_pdf, ys)
        require_close(a, b, 'bingham-logpdf-phase', atol=1e-8, rtol=1e-10)
    elif which == 'vmf-fit':
        a = ctx.lib(dist.VonMisesFisherTrainer().fit, y, saliency=sal)
        b = ctx.lib(dist.VonMisesFisherTrainer().fit, ys, saliency=sal)
        require_close(a.mean, b.mean, 'vmf-fit-mean', atol=1e-7)
        require_close(a.concentration, b.concentration, 'vmf-fit-concentration',
                      rtol=1e-7, atol=1e-9)
    else:
        m = dist.VonMisesFisher(mean=gen.unit(rng.normal(size=(*lead, D))),
                                concentration=np.asarray(10 ** rng.uniform(-3, 2.5, size=lead)))
        a, b = ctx.lib(m.log_pdf, y), ctx.lib(m.log_pdf, ys)
        require_close(a, b, 'vmf-logpdf', atol=1e-7, rtol=1e-9)
    ctx.nontrivial(unit_only or span >= 6 or mode == 'near-unity')
