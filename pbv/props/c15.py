"""C15 - Oracle alignment is optimal and undoes any per-frequency permutation.

Oracles: brute-force maximum over all permutations and
scipy.optimize.linear_sum_assignment (scores compared, never permutations);
round trip ``aligner(permuted reference, reference) == reference`` exactly.
"""
import itertools

import numpy as np
from scipy.optimize import linear_sum_assignment

from pbv.core import Borderline, Violation, require, require_close, subcheck
from pbv.oracles import alignment as oa

SUBCHECKS = []
RULE = (
    'Score matrices: K 1..6, optional leading bin axes, integer or float '
    'entries from small alphabets (tie heavy) or continuous; exhaustive part: '
    'every K x K matrix over {0,1,2}, K <= 3, int and float dtype. Round trip: '
    'references (K 1..6, odd F, T 1..12) with pairwise distinct normalised '
    'rows per bin, arbitrary per-bin permutations (all K!^F for K<=3,F<=3 in '
    'the exhaustive part), metrics cos/euclidean/multiply x greedy/optimal. '
    'Non-trivial: K >= 2 and (score matrix has at least one tie or the '
    'greedy and optimal totals differ) for score checks; K >= 2 and a '
    'non-identity permutation in at least one bin for round trips. Distinct = '
    'distinct recorded choice sequence.'
)
ASSUMPTIONS = [
    'scipy.optimize.linear_sum_assignment and a 12-line brute force are the '
    'reference optima',
]


def _pa():
    import pb_bss.permutation_alignment as pa
    return pa


def _total(score, mapping):
    """sum_k score[k, mapping[k]] for one (K, K) matrix."""
    K = score.shape[0]
    return sum(score[k, mapping[k]] for k in range(K))


def _check_score_matrix(ctx, score, exact):
    pa = _pa()
    score = np.asarray(score)
    *lead, K, _ = score.shape
    m_opt = ctx.lib(pa._mapping_from_score_matrix, score, 'optimal')
    m_gre = ctx.lib(pa._mapping_from_score_matrix, score, 'greedy')
    require(m_opt.shape == (K, *lead), 'mapping-shape',
            f'optimal mapping shape {m_opt.shape} for score {score.shape}')
    require(m_gre.shape == (K, *lead), 'mapping-shape',
            f'greedy mapping shape {m_gre.shape} for score {score.shape}')
    ties = False
    differ = False
    for f in np.ndindex(*lead):
        s = score[f]
        mo = [int(x) for x in m_opt[(slice(None), *f)]]
        mg = [int(x) for x in m_gre[(slice(None), *f)]]
        require(sorted(mo) == list(range(K)), 'optimal-is-permutation',
                f'bin {f}: {mo}')
        require(sorted(mg) == list(range(K)), 'greedy-is-permutation',
                f'bin {f}: {mg}')
        best = max(
            sum(s[k, p[k]] for k in range(K))
            for p in itertools.permutations(range(K)))
        r, c = linear_sum_assignment(-s.astype(np.float64))
        lsa = s[r, c].sum()
        to, tg = _total(s, mo), _total(s, mg)
        tol = 0 if exact else 1e-9 * (1 + float(np.abs(s).sum()))
        require(abs(float(to) - float(best)) <= tol, 'optimal-attains-maximum',
                f'bin {f}: optimal total {to} brute force {best} score={s.tolist()}')
        require(abs(float(to) - float(lsa)) <= tol, 'optimal-equals-lsa',
                f'bin {f}: optimal total {to} linear_sum_assignment {lsa}')
        require(float(tg) <= float(to) + tol, 'optimal-not-below-greedy',
                f'bin {f}: greedy {tg} > optimal {to}')
        if len(np.unique(s)) < s.size:
            ties = True
        if float(tg) < float(to) - tol:
            differ = True
    return ties, differ


@subcheck(SUBCHECKS, 'score_grid_exhaustive', quick=0, thorough=0,
          shards_quick=16, shards_thorough=16,
          exhaustive=lambda tier: _grid_choices())
def score_grid(d, ctx):
    K = d.int(1, 3)
    is_float = d.bool()
    vals = d.ints(K * K, 2)
    score = np.array(vals, dtype=np.float64 if is_float else np.int64)
    score = score.reshape(K, K)
    ties, differ = _check_score_matrix(ctx, score, exact=True)
    ctx.nontrivial(K >= 2)
    ctx.label(f'K={K}', 'float' if is_float else 'int')
    ctx.describe(K=K, dtype=str(score.dtype), score=score.tolist())


def _grid_choices():
    for K in (1, 2, 3):
        for is_float in (0, 1):
            for vals in itertools.product(range(3), repeat=K * K):
                yield [['i', K, 1], ['i', is_float, 0], ['a', list(vals), 0]]


@subcheck(SUBCHECKS, 'score_matrix_definition', quick=400, thorough=6000, fuzz=3000)
def score_matrix_definition(d, ctx):
    """the three similarity metrics as score[..., k_ref, k_est] (loop oracle),
    for (K, F, T) and flattened (K, T) masks, through every access path of the
    library: _ScoreMatrix.<metric> and _ScoreMatrix.from_name (the unused
    private _calculate_score_matrix has no documented orientation and no
    caller; it is not judged)"""
    pa = _pa()
    K = d.int(1, 5)
    flat = d.bool()
    F = 1 if flat else d.int(1, 6)
    T = d.int(1, 12)
    rng = d.rng()
    kind = d.choice(['uniform', 'signed', 'small-integers'])
    if kind == 'small-integers':
        est = d.small_array((K, F, T), [0, 1, 2]).astype(float)
        ref = d.small_array((K, F, T), [0, 1, 2]).astype(float)
    else:
        est = rng.uniform(-1 if kind == 'signed' else 0, 1, size=(K, F, T))
        ref = rng.uniform(-1 if kind == 'signed' else 0, 1, size=(K, F, T))
    metric = d.choice(['cos', 'euclidean', 'multiply'])
    a, b = (est[:, 0], ref[:, 0]) if flat else (est, ref)
    exp = np.empty((F, K, K))
    for f in range(F):
        e, r = est[:, f], ref[:, f]
        if metric == 'cos':
            e, r = oa.normalise(e), oa.normalise(r)
        exp[f] = oa.score(e, r, metric)
    if flat:
        exp = exp[0]
    ctx.describe(K=K, F=None if flat else F, T=T, metric=metric, values=kind)
    ctx.label(metric, 'flat' if flat else '3d', kind)
    paths = {
        'attribute': lambda: getattr(pa._ScoreMatrix, metric)(a, b),
        'from_name': lambda: pa._ScoreMatrix.from_name(metric)(a, b),
    }
    for name, fn in paths.items():
        got = ctx.lib(fn)
        require(np.shape(got) == exp.shape, 'score-matrix-shape',
                f'{name}: {np.shape(got)} expected {exp.shape}', path=name)
        require_close(got, exp, 'score-matrix-definition', rtol=1e-12, atol=1e-12,
                      what=f'{name} {metric}', path=name, metric=metric)
    ctx.nontrivial(K >= 2)


@subcheck(SUBCHECKS, 'score_generated', quick=1500, thorough=25000, fuzz=6000)
def score_generated(d, ctx):
    K = d.int(1, 6)
    nlead = d.choice([0, 0, 1, 1, 2])
    lead = tuple(d.int(1, 4) for _ in range(nlead))
    kind = d.choice(['int-small', 'int-wide', 'float-small', 'float-cont',
                     'float-neg', 'int8'])
    shape = (*lead, K, K)
    if kind == 'int-small':
        score = d.small_array(shape, [0, 1, 2]).astype(np.int64)
    elif kind == 'int8':
        score = d.small_array(shape, [-3, 0, 1, 5]).astype(np.int8)
    elif kind == 'int-wide':
        score = d.rng().integers(-1000, 1000, size=shape)
    elif kind == 'float-small':
        score = d.small_array(shape, [0.0, 0.5, 1.0]).astype(np.float64)
    elif kind == 'float-neg':
        score = -np.abs(d.rng().normal(size=shape)) * d.log10(-6, 6)
    else:
        score = d.rng().normal(size=shape) * d.log10(-3, 3)
    exact = score.dtype.kind == 'i'
    ties, differ = _check_score_matrix(ctx, score, exact)
    ctx.nontrivial(K >= 2 and (ties or differ or K >= 3))
    ctx.label(f'K={K}', kind, f'lead={nlead}',
              'ties' if ties else 'no-ties',
              'greedy<optimal' if differ else 'greedy==optimal')
    ctx.describe(K=K, lead=lead, kind=kind, greedy_suboptimal=differ)
    ctx.keep(score=score)


# --------------------------------------------------------------------------
# round trip
# --------------------------------------------------------------------------

def _reference(d, K, F, T, kind):
    rng = d.rng()
    if kind == 'continuous':
        ref = rng.uniform(0.05, 1.0, size=(K, F, T))
    elif kind == 'posterior':
        ref = rng.dirichlet(np.ones(K) * 0.5, size=(F, T)).transpose(2, 0, 1)
    elif kind == 'disjoint':
        # class k active on its own time slots (needs T >= K), plus leakage
        ref = np.full((K, F, T), 0.01)
        owner = np.arange(T) % K
        for k in range(K):
            ref[k][:, owner == k] = 1.0
        ref = ref * rng.uniform(0.9, 1.1, size=(1, F, T))
    elif kind == 'near-duplicate':
        base = rng.uniform(0.2, 1.0, size=(1, F, T))
        ref = np.repeat(base, K, axis=0)
        for k in range(K):
            # rows differ by a relative perturbation of >= 1e-4 in one slot
            ref[k, :, k % T] *= (1 + (k + 1) * 1e-3)
        ref = ref
    elif kind == 'negative':
        ref = rng.normal(size=(K, F, T))
    else:
        raise AssertionError(kind)
    # rows that are distinct but close relative to their norm (a nearly uniform
    # posterior 1/K +- 1e-4), in double or single precision - one case of five
    aux = d.aux(151)
    if aux.integers(0, 5) == 0:
        ref = 1.0 / K + 1e-4 * aux.normal(size=(K, F, T))
        if aux.integers(0, 2):
            ref = ref.astype(np.float32)
    return ref


def _rows_distinct_exactly(ref):
    K = ref.shape[0]
    return all(np.all(np.any(ref[a] != ref[b], axis=-1))
               for a in range(K) for b in range(a + 1, K))


def _rows_distinct(ref, tol=1e-6):
    """normalised rows pairwise differ by >= tol in every bin (and are
    non-zero), also un-normalised rows differ."""
    K, F, T = ref.shape
    norm = np.linalg.norm(ref, axis=-1, keepdims=True)
    if np.any(norm < 1e-12):
        return False
    z = ref / norm
    for a in range(K):
        for b in range(a + 1, K):
            dist = np.linalg.norm(z[a] - z[b], axis=-1)
            if np.any(dist < tol):
                return False
    return True


def _roundtrip_case(ctx, ref, perms, metric, algorithm, flatten):
    pa = _pa()
    K, F, T = ref.shape
    r64 = np.asarray(ref, dtype=np.float64)
    if ref.dtype.kind != 'i' and metric != 'euclidean' and \
            np.max(np.abs(r64 - r64.mean())) <= 1e-2 * max(abs(float(r64.mean())), 1e-300):
        # inner-product scores of nearly equal rows differ by the square of the
        # row distance (1e-8 relative): below the rounding of the inner
        # products in single precision, near it in double.  The distance
        # based metric resolves such rows and is judged.
        raise Borderline('cos / multiply scores of nearly equal rows')
    mixed = np.empty_like(ref)
    for f in range(F):
        mixed[:, f] = ref[perms[f], f]
    aligner = ctx.lib(pa.OraclePermutationAlignment, metric, algorithm)
    if flatten:
        est = mixed.reshape(K, F * T)
        r = ref.reshape(K, F * T)
        mapping = ctx.lib(aligner.calculate_mapping, est, r)
        require(mapping.shape == (K,), 'global-mapping-shape',
                f'mapping shape {mapping.shape}')
        require(sorted(int(x) for x in mapping) == list(range(K)),
                'global-mapping-is-permutation', f'{mapping.tolist()}')
        out = est[mapping]
        require(np.array_equal(out, r), 'global-permutation-resolved',
                f'metric={metric} algorithm={algorithm} perm={perms[0]} '
                f'mapping={mapping.tolist()}')
    else:
        out = ctx.lib(aligner, mixed, ref)
        require(out.shape == ref.shape, 'roundtrip-shape', f'{out.shape}')
        require(np.array_equal(out, ref), 'roundtrip-returns-reference',
                f'metric={metric} algorithm={algorithm} K={K} F={F} T={T} '
                f'first differing bin={int(np.argmax(np.any(out != ref, axis=(0, 2))))}',
                metric=metric, algorithm=algorithm)


METRICS = ['cos', 'euclidean', 'multiply']
ALGOS = ['greedy', 'optimal']


@subcheck(SUBCHECKS, 'roundtrip_generated', quick=1500, thorough=25000, fuzz=4000)
def roundtrip_generated(d, ctx):
    K = d.int(1, 6)
    F = 2 * d.int(0, 6) + 1
    kind = d.choice(['continuous', 'posterior', 'disjoint', 'near-duplicate',
                     'negative'])
    T = d.int(max(1, K if kind == 'disjoint' else 2 if K > 1 else 1), 12)
    metric = d.choice(METRICS)
    algorithm = d.choice(ALGOS)
    flatten = d.int(0, 3) == 0
    ref = _reference(d, K, F, T, kind)
    exact_int = False
    if d.epoch >= 3 and K >= 2 and T >= 2 and d.aux(152).integers(0, 8) == 0:
        # integer masks (counts, fixed-point features) whose inner products are
        # exact in 64-bit integers but beyond the 2^53 of double precision: the
        # rows share one large entry and differ in small ones.  The 'multiply'
        # score of integer masks is computed in integers, so the rows are
        # told apart exactly; the identity assignment is the unique maximiser
        # (<a,b> <= (|a|^2 + |b|^2)/2 with equality for a = b only) and the
        # largest entry of every score matrix lies on its diagonal
        aux = d.aux(153)
        big = 2 ** int(aux.integers(27, 30))
        small = np.zeros((K, F, T), dtype=np.int64)
        for f in range(F):
            codes = aux.permutation(5 ** min(T - 1, 3))[:K] if 5 ** min(T - 1, 3) >= K else None
            if codes is None:
                small = None
                break
            for k in range(K):
                c = int(codes[k])
                for t in range(1, min(T, 4)):
                    small[k, f, t] = c % 5
                    c //= 5
        if small is not None:
            small[:, :, 0] = big
            ref = small
            metric, kind, exact_int = 'multiply', 'int64-large', True
    if metric == 'multiply' and kind == 'negative':
        # for the un-normalised inner product the statement needs rows of
        # comparable orientation only through distinctness; keep it.
        pass
    if flatten:
        p = d.perm(K)
        perms = [p] * F
        flat = ref.reshape(K, 1, F * T)
        if not (_rows_distinct_exactly(flat) if exact_int else _rows_distinct(flat)):
            raise Borderline('rows not distinct')
    else:
        perms = [d.perm(K) for _ in range(F)]
        if not (_rows_distinct_exactly(ref) if exact_int else _rows_distinct(ref)):
            raise Borderline('rows not distinct')
    ctx.describe(K=K, F=F, T=T, kind=kind, metric=metric, algorithm=algorithm,
                 flatten=flatten, perms=perms[:5])
    ctx.keep(reference=ref, perms=np.array(perms))
    ctx.label(f'K={K}', kind, metric, algorithm,
              'flattened' if flatten else 'per-bin')
    ctx.nontrivial(K >= 2 and any(p != list(range(K)) for p in perms))
    _roundtrip_case(ctx, ref, perms, metric, algorithm, flatten)


def _roundtrip_exh_choices():
    # all K!^F permutation fields for K <= 3, F <= 3 (F odd in the 3-dim call:
    # F in {1, 3}), every metric and algorithm; Fisher-Yates codes enumerate
    # each permutation exactly once.
    for K in (1, 2, 3):
        codes = list(itertools.product(*[range(K - i) for i in range(K - 1)]))
        for F in (1, 3):
            for mi in range(3):
                for ai in range(2):
                    for field in itertools.product(codes, repeat=F):
                        ch = [['i', K, 1], ['i', (F - 1) // 2, 0],
                              ['i', mi, 0], ['i', ai, 0], ['s', 12345, 0]]
                        for code in field:
                            for i, c in enumerate(code):
                                ch.append(['i', c, 0])
                        yield ch


@subcheck(SUBCHECKS, 'roundtrip_exhaustive', quick=0, thorough=0,
          shards_quick=8, shards_thorough=8,
          exhaustive=lambda tier: _roundtrip_exh_choices())
def roundtrip_exhaustive(d, ctx):
    K = d.int(1, 3)
    F = 2 * d.int(0, 1) + 1
    metric = METRICS[d.int(0, 2)]
    algorithm = ALGOS[d.int(0, 1)]
    rng = d.rng()
    T = 5
    ref = rng.uniform(0.05, 1.0, size=(K, F, T))
    perms = [d.perm(K) for _ in range(F)]
    if not _rows_distinct(ref):
        raise Borderline('rows not distinct')
    ctx.describe(K=K, F=F, metric=metric, algorithm=algorithm, perms=perms)
    ctx.label(f'K={K}', f'F={F}', metric, algorithm)
    ctx.nontrivial(K >= 2 and any(p != list(range(K)) for p in perms))
    _roundtrip_case(ctx, ref, perms, metric, algorithm, False)
