"""C05 - mixture training is equivariant under relabelling of the classes."""
import itertools

import numpy as np

from pbv import gen, mm
from pbv.core import Borderline, Violation, require, require_close, subcheck

SUBCHECKS = []
RULE = (
    'Pairs (init, init[..., perm, :]) (source_activity_mask permuted '
    'together): all seven trainers, every weight-tying option and option '
    'set, general-position data, iterations 1..8 (12 or 20 in one case of eight); permutations: every one of '
    'the K! for K <= 4 is enumerated per case in the thorough tier (3 drawn '
    'in the quick tier), drawn for K = 5, 6. Non-trivial: a non-identity '
    'permutation under which the start is not invariant. Distinct = distinct '
    'recorded choice sequence.'
)

CLASS_AXIS = dict(mm.PARAM_CLASS_AXIS)


def permute_params(p, perm, model, case):
    out = {}
    for key, val in p.items():
        if key == 'weight':
            ax = mm.weight_class_axis(model, case)
            out[key] = val if ax is None else np.take(val, perm, axis=ax)
        elif key == 'covariance':
            out[key] = np.take(val, perm, axis=mm.covariance_class_axis(case))
        else:
            out[key] = np.take(val, perm, axis=CLASS_AXIS[key])
    return out


def _one(d, ctx, kind, tier_all, **kw):
    case = mm.draw_case(
        d, [kind], degenerate=False, general_position=True,
        single_precision=False, allow_scale=False, allow_num_classes=False,
        allow_aligner=False, regular_share=False, positive_saliency_only=True,
        stable_only=True, min_K=2, **kw)
    if case.init.shape != case.aff_shape:
        case.init = np.broadcast_to(case.init, case.aff_shape).copy()
    sharp = False
    if kind == 'cbmm' and case.lead == () and d.aux(51).integers(0, 3) == 0:
        # strongly concentrated classes (60..90 dB above their own noise, each
        # class at its own level) with a hard start: class scatters that are
        # rank one up to 1e-9..1e-6 and not equal to each other
        aux = d.aux(52)
        K, N, D = case.K, case.N, case.D
        lab = aux.permutation(np.arange(N) % K)
        protos = gen.unit(gen.cnormal(aux, (K, D)))
        sigma = 10.0 ** aux.uniform(-4.5, -3.0, size=K)
        case.y = protos[lab] * gen.cnormal(aux, (N, 1)) + \
            sigma[lab][:, None] * gen.cnormal(aux, (N, D))
        case.init = (lab[None, :] == np.arange(K)[:, None]).astype(float)
        case.opts.pop('saliency', None)
        case.trainer_kwargs.pop('max_concentration', None)
        case.meta['data'] = 'sharp-classes'
        sharp = True
    if kind == 'cacgmm' and d.epoch >= 2 and case.N >= 4 and d.aux(56).integers(0, 5) == 0:
        # "(and of a source-activity mask, if given) ... every weight-tying
        # option": a mask with frames in which no source is active together
        # with weights tied over the classes (all equal: nothing but the class
        # index could single one out)
        aux = d.aux(57)
        m = aux.uniform(size=case.aff_shape) > 0.3
        m[..., :, 0] = True
        off = aux.permutation(np.arange(1, case.N))[:max(1, case.N // 4)]
        m[..., :, off] = False
        case.opts['source_activity_mask'] = m
        case.opts['weight_constant_axis'] = (-2,) if aux.integers(0, 2) else -2
        case.opts.pop('saliency', None)
        case.meta['mask'] = 'frames-without-active-source'
    if not sharp and d.aux(53).integers(0, 6) == 0:
        # "all initial affiliations": a start that is normalised only up to a
        # floor applied afterwards (one-hot masks clipped at 1e-6, masks
        # normalised in single precision)
        if d.aux(54).integers(0, 2) == 0:
            case.init = np.clip(case.init, 10.0 ** d.aux(55).uniform(-8, -5), 1.0)
        else:
            i32 = case.init.astype(np.float32)
            case.init = (i32 / i32.sum(axis=-2, keepdims=True)).astype(np.float64)
        case.meta['init'] = str(case.meta.get('init')) + '+nearly-normalised'
    if kind != 'cbmm' and d.int(0, 7) == 0:
        case.iterations = d.choice([12, 20])     # the property: iterations 1..20
    ctx.describe(**case.describe())
    K = case.K
    ctx.label(kind, f'K={K}', f'wca={case.opts.get("weight_constant_axis")}')
    m0 = ctx.lib(mm.fit, case, allow_if=mm.explicit_refusal)
    if mm.ill_conditioned(m0, case, bingham_limit=-1e10 if sharp else -1e6):
        raise Borderline('fit sits on a numerical guard')
    p0 = mm.params(m0, case)
    post0 = ctx.lib(mm.predict, m0, case)
    if K <= 4 and tier_all:
        perms = [list(p) for p in itertools.permutations(range(K))][1:]
    else:
        perms = []
        for _ in range(3 if K <= 4 else 2):
            perms.append(d.perm(K))
    checked = 0
    for perm in perms:
        if perm == list(range(K)):
            continue
        init_p = case.init[..., perm, :]
        if np.array_equal(init_p, case.init):
            continue
        c2 = case.copy(init=init_p)
        if 'source_activity_mask' in case.opts:
            c2.opts['source_activity_mask'] = \
                case.opts['source_activity_mask'][..., perm, :]
        if case.opts.get('fixed_covariance') is not None:
            # a per-class input is relabelled together with the start
            c2.opts['fixed_covariance'] = np.take(
                case.opts['fixed_covariance'], perm,
                axis=mm.covariance_class_axis(case))
        m1 = ctx.lib(mm.fit, c2, clause='permuted-start-raises')
        expected = permute_params(p0, perm, m0, case)
        p1 = mm.params(m1, c2)
        mm.compare_params(expected, p1,
                          'fit-not-equivariant', rtol=1e-7, atol=1e-8,
                          kind=kind, what=f'perm={perm}')
        post1 = ctx.lib(mm.predict, m1, c2)
        atol = 1e-7
        if kind == 'cbmm':
            # the Bingham eigenvalues come from an iterative solver whose two
            # runs (classes summed in a different order) stop up to its
            # termination accuracy apart; compare_params has bounded that.  A
            # parameter matrix that moves by dB moves the log density by at
            # most 2 |dB| (the log normaliser is 1-Lipschitz in the
            # eigenvalues), and a posterior by at most half of the largest log
            # density change: the posteriors have to agree to what the two
            # parameter sets differ by, no further
            dB = np.asarray(expected['bingham_matrix']) - np.asarray(p1['bingham_matrix'])
            atol = 1e-6 + 2 * float(np.max(np.linalg.norm(dB, 2, axis=(-2, -1))))
        require_close(post0[..., perm, :], post1, 'posterior-not-equivariant',
                      atol=atol, what=f'perm={perm}', kind=kind)
        checked += 1
    ctx.nontrivial(checked > 0)
    ctx.label(f'perms={min(checked, 6)}')


def _make(kind, quick, thorough, **kw):
    @subcheck(SUBCHECKS, f'relabel_{kind}', quick=quick, thorough=thorough)
    def fn(d, ctx, _kind=kind, _kw=kw):
        import os
        _one(d, ctx, _kind, os.environ.get('PBV_TIER') == 'thorough', **_kw)
    return fn


_make('cacgmm', 300, 5000, max_iterations=8, max_K=6, max_D=5)
_make('cwmm', 250, 4000, max_iterations=8, max_K=6, max_D=5)
_make('cbmm', 40, 600, max_K=3, max_D=3, max_iterations=2, max_lead=1)
_make('gmm', 250, 4000, max_iterations=8, max_K=6, max_D=5)
_make('vmfmm', 200, 3500, max_iterations=8, max_K=6, max_D=5)
_make('gcacgmm', 180, 3000, max_K=4, max_D=4, max_iterations=6)
_make('vmfcacgmm', 180, 3000, max_K=4, max_D=4, max_iterations=6)
