"""C05 - mixture training is equivariant under relabelling of the classes."""
import itertools

import numpy as np

from pbv import gen, mm
from pbv.core import Borderline, Violation, require, require_close, subcheck

SUBCHECKS = []
RULE = (
    'Pairs (init, init[..., perm, :]) (source_activity_mask permuted '
    'together): all seven trainers, every weight-tying option and option '
    'set, general-position data, iterations 1..8 (12 or 20 in one case of eight); permutations: every one of '
    'the K! for K <= 4 is enumerated per case in the thorough tier (3 drawn '
    'in the quick tier), drawn for K = 5, 6. Non-trivial: a non-identity '
    'permutation under which the start is not invariant. Distinct = distinct '
    'recorded choice sequence.'
)

CLASS_AXIS = dict(mm.PARAM_CLASS_AXIS)


def permute_params(p, perm, model, case):
    out = {}
    for key, val in p.items():
        if key == 'weight':
            ax = mm.weight_class_axis(model, case)
            out[key] = val if ax is None else np.take(val, perm, axis=ax)
        elif key == 'covariance':
            out[key] = np.take(val, perm, axis=mm.covariance_class_axis(case))
        else:
            out[key] = np.take(val, perm, axis=CLASS_AXIS[key])
    return out


def _one(d, ctx, kind, tier_all, **kw):
    case = mm.draw_case(
        d, [kind], degenerate=False, general_position=True,
        single_precision=False, allow_scale=False, allow_num_classes=False,
        allow_aligner=False, regular_share=False, positive_saliency_only=True,
        stable_only=True, min_K=2, **kw)
    if case.init.shape != case.aff_shape:
        case.init = np.broadcast_to(case.init, case.aff_shape).copy()
    sharp = False
    if kind == 'cbmm' and case.lead == () and d.aux(51).integers(0, 2) == 0:
        # strongly concentrated classes (60..90 dB above their own noise, each
        # class at its own level) with a hard start: class scatters that are
        # rank one up to 1e-9..1e-6 and not equal to each other
        aux = d.aux(52)
        K, N, D = case.K, case.N, case.D
        lab = aux.permutation(np.arange(N) % K)
        protos = gen.unit(gen.cnormal(aux, (K, D)))
        sigma = 10.0 ** aux.uniform(-4.5, -3.0, size=K)
        case.y = protos[lab] * gen.cnormal(aux, (N, 1)) + \
            sigma[lab][:, None] * gen.cnormal(aux, (N, D))
        case.init = (lab[None, :] == np.arange(K)[:, None]).astype(float)
        case.opts.pop('saliency', None)
        case.trainer_kwargs.pop('max_concentration', None)
        case.meta['data'] = 'sharp-classes'
        sharp = True
    if kind == 'cacgmm' and d.epoch >= 2 and case.N >= 4 and d.aux(56).integers(0, 5) == 0:
        # "(and of a source-activity mask, if given) ... every weight-tying
        # option": a mask with frames in which no source is active together
        # with weights tied over the classes (all equal: nothing but the class
        # index could single one out)
        aux = d.aux(57)
        m = aux.uniform(size=case.aff_shape) > 0.3
        m[..., :, 0] = True
        off = aux.permutation(np.arange(1, case.N))[:max(1, case.N // 4)]
        m[..., :, off] = False
        case.opts['source_activity_mask'] = m
        case.opts['weight_constant_axis'] = (-2,) if aux.integers(0, 2) else -2
        case.opts.pop('saliency', None)
        case.meta['mask'] = 'frames-without-active-source'
    if not sharp and d.aux(53).integers(0, 6) == 0:
        # "all initial affiliations": a start that is normalised only up to a
        # floor applied afterwards (one-hot masks clipped at 1e-6, masks
        # normalised in single precision)
        if d.aux(54).integers(0, 2) == 0:
            case.init = np.clip(case.init, 10.0 ** d.aux(55).uniform(-8, -5), 1.0)
        else:
            i32 = case.init.astype(np.float32)
            case.init = (i32 / i32.sum(axis=-2, keepdims=True)).astype(np.float64)
        case.meta['init'] = str(case.meta.get('init')) + '+nearly-normalised'
    if kind != 'cbmm' and d.int(0, 7) == 0:
        case.iterations = d.choice([12, 20])     # the property: iterations 1..20
    ctx.describe(**case.describe())
    K = case.K
    ctx.label(kind, f'K={K}', f'wca={case.opts.get("weight_constant_axis")}')
    m0 = ctx.lib(mm.fit, case, allow_if=mm.explicit_refusal)
    if mm.ill_conditioned(m0, case, bingham_limit=-1e10 if sharp else -1e6):
        raise Borderline('fit sits on a numerical guard')
    K = case.K
    if K <= 4 and tier_all:
        perms = [list(p) for p in itertools.permutations(range(K))][1:]
    else:
        perms = []
        for _ in range(3 if K <= 4 else 2):
            perms.append(d.perm(K))
    checked = _relabelled_fits(ctx, case, kind, m0, perms)
    ctx.nontrivial(checked > 0)
    ctx.label(f'perms={min(checked, 6)}')


def _relabelled_fits(ctx, case, kind, m0, perms):
    """fit again from every relabelled start and compare model and posteriors
    with the relabelled first fit; returns the number of starts compared"""
    K = case.K
    p0 = mm.params(m0, case)
    post0 = ctx.lib(mm.predict, m0, case)
    checked = 0
    for perm in perms:
        if perm == list(range(K)):
            continue
        init_p = case.init[..., perm, :]
        if np.array_equal(init_p, case.init):
            continue
        c2 = case.copy(init=init_p)
        if 'source_activity_mask' in case.opts:
            c2.opts['source_activity_mask'] = \
                case.opts['source_activity_mask'][..., perm, :]
        if case.opts.get('fixed_covariance') is not None:
            # a per-class input is relabelled together with the start
            c2.opts['fixed_covariance'] = np.take(
                case.opts['fixed_covariance'], perm,
                axis=mm.covariance_class_axis(case))
        m1 = ctx.lib(mm.fit, c2, clause='permuted-start-raises')
        expected = permute_params(p0, perm, m0, case)
        p1 = mm.params(m1, c2)
        mm.compare_params(expected, p1,
                          'fit-not-equivariant', rtol=1e-7, atol=1e-8,
                          kind=kind, what=f'perm={perm}')
        post1 = ctx.lib(mm.predict, m1, c2)
        # the parameters have just been found equal to 1e-7 relative; a posterior
        # moves by the change of the log densities, which the stream exponents
        # of the integration models multiply, and two runs of many iterations
        # drift apart by rounding a little further with every iteration
        atol = 1e-7 * max(1.0, case.iterations / 5.0) * max(
            1.0, float(case.opts.get('spatial_weight', 1.0) or 1.0),
            float(case.opts.get('spectral_weight', 1.0) or 1.0))
        if kind in ('cacgmm', 'gcacgmm', 'vmfcacgmm'):
            # covariances that agree to 1e-7 of their largest eigenvalue give
            # quadratic forms z^H B^-1 z that agree to 1e-7 times the condition
            # number (the conditioning guard above admits up to 1e7)
            lam = np.asarray(m0.cacg.covariance_eigenvalues, dtype=float)
            cond = float(np.max(lam.max(axis=-1) / np.maximum(lam.min(axis=-1), 1e-300)))
            atol *= max(1.0, cond / 100.0)
        if kind == 'cbmm':
            # the Bingham eigenvalues come from an iterative solver whose two
            # runs (classes summed in a different order) stop up to its
            # termination accuracy apart; compare_params has bounded that.  A
            # parameter matrix that moves by dB moves the log density by at
            # most 2 |dB| (the log normaliser is 1-Lipschitz in the
            # eigenvalues), and a posterior by at most half of the largest log
            # density change: the posteriors have to agree to what the two
            # parameter sets differ by, no further
            dB = np.asarray(expected['bingham_matrix']) - np.asarray(p1['bingham_matrix'])
            atol = 1e-6 + 2 * float(np.max(np.linalg.norm(dB, 2, axis=(-2, -1))))
        require_close(post0[..., perm, :], post1, 'posterior-not-equivariant',
                      atol=atol, what=f'perm={perm}', kind=kind)
        checked += 1
    return checked


def _make(kind, quick, thorough, **kw):
    @subcheck(SUBCHECKS, f'relabel_{kind}', quick=quick, thorough=thorough)
    def fn(d, ctx, _kind=kind, _kw=kw):
        import os
        _one(d, ctx, _kind, os.environ.get('PBV_TIER') == 'thorough', **_kw)
    return fn


_make('cacgmm', 300, 5000, max_iterations=8, max_K=6, max_D=5)
_make('cwmm', 250, 4000, max_iterations=8, max_K=6, max_D=5)
_make('cbmm', 100, 1200, max_K=3, max_D=3, max_iterations=2, max_lead=1)
_make('gmm', 250, 4000, max_iterations=8, max_K=6, max_D=5)
_make('vmfmm', 200, 3500, max_iterations=8, max_K=6, max_D=5)
_make('gcacgmm', 180, 3000, max_K=4, max_D=4, max_iterations=6)
_make('vmfcacgmm', 180, 3000, max_K=4, max_D=4, max_iterations=6)


# ------------------------------------------------ starts next to a decision boundary
# The integration models with their built-in alignment take a discrete decision
# in every E-step (which spatial class goes with which spectral class, per
# frequency).  Random starts are never close to a point where that decision
# changes; there, relabelling must still not matter as long as the two best
# candidates differ by clearly more than rounding.  Such a start is *searched*:
# on the segment between two generated starts with different decisions the
# library's own decision (observed through the hook) is bisected down to the
# resolution of double precision, then the start is moved away from the boundary
# until the reference criterion separates the two candidates by about 1e-9
# relative - four orders of magnitude above the rounding of the criterion.

def _pairing_values(case, prev, f):
    """reference value of the alignment criterion for every pairing at bin f
    (model ``prev``), and the list of pairings"""
    spatial, spectral = mm.oracle_stream_log_pdfs(prev, case)
    spatial = prev.spatial_weight * spatial
    spectral = prev.spectral_weight * spectral
    vals, perms = [], list(itertools.permutations(range(case.K)))
    for perm in perms:
        lp = spatial[f][list(perm)] + spectral[f]
        a = np.exp(lp - lp.max(axis=0, keepdims=True))
        a = a / np.maximum(a.sum(axis=0, keepdims=True), np.finfo(float).tiny)
        vals.append(float(np.sum(a * lp)))
    return np.array(vals), perms


def _observed_decision(case, init):
    """(index of the pairing the library chose at every bin in the E-step after
    the first M-step, the model of that M-step, margins of the reference
    criterion) or None when the decision cannot be read off"""
    from pb_bss import _verif
    trace = []

    def cb(**k):
        trace.append((k['model'], np.array(k['affiliation'], copy=True)))
    c = case.copy(init=init, iterations=2)
    _verif.register(cb)
    try:
        mm.fit(c)
    finally:
        _verif.unregister(cb)
    if len(trace) != 2:
        return None
    prev, aff = trace[0][0], trace[1][1]
    F, K, N = case.lead[0], case.K, case.N
    spatial, spectral = mm.oracle_stream_log_pdfs(prev, case)
    spatial = prev.spatial_weight * spatial
    spectral = prev.spectral_weight * spectral
    wb = np.broadcast_to(np.asarray(mm.weight_broadcast(prev, case), dtype=float), (F, K, N))
    eps = case.opts.get('affiliation_eps', 1e-10) or 0.0
    chosen = []
    perms = list(itertools.permutations(range(K)))
    for f in range(F):
        hit = []
        for i, perm in enumerate(perms):
            lp = spatial[f][list(perm)] + spectral[f]
            num = wb[f] * np.exp(lp - lp.max(axis=0, keepdims=True))
            p = num / np.maximum(num.sum(axis=0, keepdims=True), np.finfo(float).tiny)
            p = np.clip(p, eps, 1 - eps) if eps else p
            if np.allclose(p, aff[f], rtol=0, atol=1e-7):
                hit.append(i)
        if len(hit) != 1:
            return None
        chosen.append(hit[0])
    return chosen, prev


@subcheck(SUBCHECKS, 'relabel_next_to_a_pairing_boundary', quick=40, thorough=600,
          min_nontrivial=0.0)
def relabel_next_to_a_pairing_boundary(d, ctx):
    kind = d.choice(['gcacgmm', 'vmfcacgmm'])
    case = mm.draw_case(
        d, [kind], degenerate=False, general_position=True,
        single_precision=False, allow_scale=False, allow_num_classes=False,
        allow_aligner=False, regular_share=False, positive_saliency_only=True,
        stable_only=True, min_K=3, max_K=3, max_D=3, max_iterations=2, options=False)
    case.opts = dict(inline_permutation_alignment=True, weight_constant_axis=(-1,))
    case.iterations = 2
    if case.init.shape != case.aff_shape:
        case.init = np.broadcast_to(case.init, case.aff_shape).copy()
    rng = d.rng()
    A0 = case.init
    A1 = np.moveaxis(rng.dirichlet(np.ones(case.K) * 0.7, size=(*case.lead, case.N)), -1, -2)
    ctx.describe(**case.describe())
    ctx.label(kind)

    def start(s):
        return (1 - s) * A0 + s * A1

    lo, hi = 0.0, 1.0
    dlo, dhi = _observed_decision(case, start(lo)), _observed_decision(case, start(hi))
    if dlo is None or dhi is None or dlo[0] == dhi[0]:
        raise Borderline('no decision boundary between the two starts')
    for _ in range(70):
        mid = 0.5 * (lo + hi)
        if mid in (lo, hi):
            break
        dm = _observed_decision(case, start(mid))
        if dm is None:
            raise Borderline('decision not readable on the segment')
        if dm[0] == dlo[0]:
            lo = mid
        else:
            hi, dhi = mid, dm
    # the bin(s) whose decision changes between lo and hi, and the two pairings
    f_changed = [f for f in range(case.lead[0]) if dlo[0][f] != dhi[0][f]]
    if len(f_changed) != 1:
        raise Borderline('several decisions change at once')
    f = f_changed[0]
    i_lo, i_hi = dlo[0][f], dhi[0][f]

    def margin(s):
        dec = _observed_decision(case, start(s))
        if dec is None:
            return None
        vals, _ = _pairing_values(case, dec[1], f)
        order = np.argsort(vals)[::-1]
        top, second = vals[order[0]], vals[order[1]]
        third = vals[order[2]] if len(vals) > 2 else -np.inf
        scale = max(abs(top), 1e-300)
        return (top - second) / scale, (top - third) / scale, int(order[0]), int(order[1]), dec

    # walk away from the boundary on either side (distances growing
    # geometrically from the resolution of the bisection) until the reference
    # criterion separates the two best candidates by 3e-10..3e-9 relative
    target = None
    sides = [(-1, lo), (1, hi)]
    if d.bool():
        sides.reverse()
    for sign, edge in sides:
        dist = max(abs(edge), 1e-3) * 4e-16
        for _ in range(80):
            dist *= 1.6
            s = edge + sign * dist
            if not 0.0 < s < 1.0:
                break
            mg = margin(s)
            if mg is None:
                break
            gap, gap3, top, second, dec = mg
            if 3e-10 <= gap <= 3e-9:
                target = (s, gap, gap3, top, second, dec)
                break
            if gap > 1e-7:
                break
        if target is not None:
            break
    if target is None:
        raise Borderline('no start with a gap of 1e-9 found next to the boundary')
    s, gap, gap3, top, second, dec = target
    if {top, second} != {i_lo, i_hi} or gap3 < 1e-6:
        raise Borderline('a third pairing is close as well')
    # every other bin must be far from its own boundary
    for g in range(case.lead[0]):
        if g != f:
            v, _ = _pairing_values(case, dec[1], g)
            v = np.sort(v)[::-1]
            if (v[0] - v[1]) / max(abs(v[0]), 1e-300) < 1e-6:
                raise Borderline('another bin is close to a boundary')
    case.init = start(s)
    ctx.describe(boundary_at=lo, start_at=s, relative_gap=gap, bin=f)
    ctx.label('gap=1e-9')
    m0 = ctx.lib(mm.fit, case, allow_if=mm.explicit_refusal)
    if mm.ill_conditioned(m0, case):
        raise Borderline('fit sits on a numerical guard')
    perms = [list(p) for p in itertools.permutations(range(case.K))][1:]
    checked = _relabelled_fits(ctx, case, kind, m0, perms)
    ctx.nontrivial(checked > 0)
