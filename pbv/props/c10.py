"""C10 - PSD estimate is the mask-weighted mean outer product."""
import numpy as np

from pbv import gen
from pbv.core import Violation, require, require_close, subcheck
from pbv.oracles import beamforming as ob

SUBCHECKS = []
RULE = (
    'Canonical arrays x (lead.., D, T) and masks (absent / (lead.., T) / '
    '(lead.., K, T)) with 0..3 leading axes, D 1..8, T 1..64, K 1..5 are '
    'moved with np.moveaxis to every axis layout the function supports '
    '(sensor_dim, time_dim anywhere for mask-free and source-axis masks, '
    'source_dim anywhere; -1 time for masks without source axis), float / '
    'boolean / all-zero / sparse masks, normalize on/off; positive and '
    'negative axis indices. Oracle: explicit loops. Non-trivial: a mask with '
    'source axis, K >= 2 and (non-default layout or boolean mask or T, D, K '
    'pairwise different). Distinct = distinct recorded choice sequence.'
)


def _psd():
    from pb_bss.extraction.beamformer import get_power_spectral_density_matrix
    return get_power_spectral_density_matrix


def _place(d, n_lead, names):
    """positions of the named axes among n_lead + len(names) axes; the
    leading axes keep their order in the remaining positions"""
    n = n_lead + len(names)
    pos = {}
    free = list(range(n))
    layout = d.choice(['default', 'default', 'random'])
    if layout == 'default':
        for i, name in enumerate(names):
            pos[name] = n_lead + i
    else:
        for name in names:
            j = d.int(0, len(free) - 1)
            pos[name] = free.pop(j)
    return pos, layout


def _to_layout(canon, n_lead, pos, names):
    """canon has shape (lead.., names[0].., names[1]..); returns the array
    with the named axes at ``pos``"""
    n = canon.ndim
    src = [n_lead + i for i in range(len(names))]
    dst = [pos[name] for name in names]
    return np.moveaxis(canon, src, dst)


def _neg(d, idx, n):
    return idx - n if d.bool() else idx


@subcheck(SUBCHECKS, 'psd_layouts', quick=4400, thorough=36000, fuzz=4000)
def psd_layouts(d, ctx):
    f = _psd()
    lead = tuple(d.int(1, 3) for _ in range(d.int(0, 3)))
    nl = len(lead)
    D, T = d.int(1, 8), d.choice([1, 2, 3, 5, 8, 17, 64]) if d.bool() else d.int(1, 12)
    mode = d.choice(['none', 'plain', 'source', 'source', 'source'])
    K = d.int(1, 5)
    normalize = d.int(0, 3) != 0
    rng = d.rng()
    x = gen.cnormal(rng, (*lead, D, T)) * d.log10(-3, 3)
    xdt = d.choice(['complex128', 'complex128', 'complex128', 'complex64', 'float64'])
    if xdt == 'complex64':
        x = x.astype(np.complex64)
    elif xdt == 'float64':
        x = np.ascontiguousarray(x.real)
    rt = 1e-5 if xdt == 'complex64' else 1e-10
    n = nl + 2
    pos_x, layout = _place(d, nl, ['sensor', 'time']) if mode != 'plain' else \
        ({'sensor': nl, 'time': nl + 1}, 'default')
    if mode == 'plain' and d.bool():
        # sensor axis may still move; time stays last
        j = d.int(0, nl)
        pos_x = {'sensor': j, 'time': nl + 1}
        layout = 'random' if j != nl else 'default'
    X = _to_layout(x, nl, pos_x, ['sensor', 'time'])
    kw = {}
    if pos_x['sensor'] != n - 2 or d.bool():
        kw['sensor_dim'] = _neg(d, pos_x['sensor'], n)
    if pos_x['time'] != n - 1 or d.bool():
        kw['time_dim'] = _neg(d, pos_x['time'], n)
    if not normalize:
        kw['normalize'] = False
    mkind = 'n/a'
    m = M = None
    if mode != 'none':
        mkind = d.choice(['float', 'float', 'bool', 'zero', 'sparse', 'posterior'])
        mshape = (*lead, T) if mode == 'plain' else (*lead, K, T)
        if mkind == 'float':
            m = rng.uniform(0, 2, size=mshape)
        elif mkind == 'bool':
            m = rng.uniform(size=mshape) > 0.4
        elif mkind == 'zero':
            # all-zero float mask or all-False boolean mask
            m = np.zeros(mshape, dtype=bool if d.aux(101).integers(0, 2) else float)
        elif mkind == 'sparse':
            m = rng.uniform(0, 1, size=mshape) * (rng.uniform(size=mshape) > 0.7)
            m[..., 0] = 0
        else:
            if mode == 'source':
                m = np.moveaxis(rng.dirichlet(np.ones(K), size=(*lead, T)), -1, -2)
            else:
                m = rng.uniform(0, 1, size=mshape)
        # "invariant to positive rescaling of a normalised mask": the level of
        # a float mask is anything from 1e-9 to 1e3 in every second case (the
        # documented floor of the normaliser is 1e-10 and is part of the oracle)
        if mkind in ('float', 'posterior', 'sparse') and d.aux(102).integers(0, 2):
            m = m * 10.0 ** d.aux(103).uniform(-9, 3)
        elif mkind in ('float', 'posterior') and d.aux(104).integers(0, 3) == 0:
            # masks the caller has normalised already: time sums equal to one
            # up to 1e-5 (normalised in single precision, or with a small
            # regulariser in the denominator) - the documented result is still
            # the division by the actual sum
            aux = d.aux(105)
            tot = m.sum(axis=-1, keepdims=True)
            if np.all(tot > 0):
                how = int(aux.integers(0, 3))
                if how == 0:
                    m32 = m.astype(np.float32)
                    m = (m32 / m32.sum(axis=-1, keepdims=True)).astype(np.float64)
                elif how == 1:
                    m = m / (tot + 10.0 ** aux.uniform(-8, -5) * tot)
                else:
                    m = m / tot * (1 + aux.uniform(-1e-5, 1e-5, size=tot.shape))
        if mkind in ('float', 'posterior', 'sparse') and d.int(0, 3) == 0:
            m = m.astype(np.float32)
            rt = max(rt, 1e-5)
        if mode == 'plain':
            M = m
        else:
            # source axis: any position; time at the same index as in X
            n_m = nl + 2
            tpos = pos_x['time']
            free = [i for i in range(n_m) if i != tpos]
            if layout == 'default' and d.bool():
                spos = n_m - 2 if tpos == n_m - 1 else free[-1]
            else:
                spos = d.choice(free)
            M = np.moveaxis(m, [nl, nl + 1], [spos, tpos])
            if spos != n_m - 2 or d.bool():
                kw['source_dim'] = _neg(d, spos, n_m)
    ctx.describe(lead=lead, D=D, T=T, K=K, mask=mode, mask_kind=mkind,
                 layout=layout, kwargs=kw, x_shape=X.shape,
                 mask_shape=None if M is None else M.shape)
    ctx.label(f'mask={mode}', f'kind={mkind}', f'layout={layout}',
              f'normalize={normalize}', f'nlead={nl}', f'x={xdt}',
              'mask=float32' if (m is not None and m.dtype == np.float32) else 'mask=other')
    X_in = np.array(X)
    M_in = None if M is None else np.array(M)
    X_in.setflags(write=False)
    if M_in is not None:
        M_in.setflags(write=False)
    xb = X_in.tobytes()
    mb = None if M_in is None else M_in.tobytes()
    got = ctx.lib(f, X_in, M_in, **kw)
    require(X_in.tobytes() == xb and (M_in is None or M_in.tobytes() == mb),
            'arguments-modified', '')
    # expected, canonical layout
    if mode == 'source':
        ref = np.empty((*lead, K, D, D), dtype=np.complex128)
        for idx in np.ndindex(*lead):
            for k in range(K):
                ref[idx][k] = ob.psd(x[idx].astype(np.complex128),
                                     m[idx][k].astype(float), normalize)
        spos_n = spos
        if spos_n < n - 2:
            ref = np.moveaxis(ref, nl, spos_n)
    else:
        ref = np.empty((*lead, D, D), dtype=np.complex128)
        for idx in np.ndindex(*lead):
            ref[idx] = ob.psd(x[idx].astype(np.complex128),
                              None if m is None else m[idx].astype(float), normalize)
    require(np.shape(got) == ref.shape, 'psd-shape',
            f'{np.shape(got)} expected {ref.shape} (x {X.shape}, mask '
            f'{None if M is None else M.shape}, {kw})')
    scale = float(np.max(np.abs(ref))) if ref.size else 0.0
    require_close(got, ref, 'psd-is-mask-weighted-mean-outer-product',
                  atol=rt * max(scale, 1e-300) + 1e-300,
                  what=f'mask={mode}/{mkind} {kw}', mask=mode)
    require(np.all(np.isfinite(got)), 'psd-finite', '')
    herm = np.max(np.abs(got - np.swapaxes(got.conj(), -1, -2)))
    # Hermitian up to the rounding of the accumulation (T <= 64 terms) in the
    # precision of the result: 32 eps, i.e. 4e-6 relative in single precision
    require(herm <= max(1e-12, rt * 1e-2, 32 * float(np.finfo(np.asarray(got).dtype).eps))
            * max(scale, 1e-300), 'psd-hermitian', f'{herm:.3e}')
    if mkind == 'zero':
        require(np.all(got == 0), 'zero-mask-gives-zero-matrix', '')
    ev = np.linalg.eigvalsh((got + np.swapaxes(got.conj(), -1, -2)) / 2)
    tr = np.trace(got, axis1=-1, axis2=-2).real
    require(np.all(ev.min(axis=-1) >= -max(1e-12, rt) * np.maximum(tr, 1e-300) - 1e-300),
            'psd-positive-semidefinite', f'min eigenvalue {ev.min():.3e}')
    # invariance to positive rescaling of a normalised mask
    if M is not None and normalize and mkind in ('float', 'posterior') and \
            np.all(m.sum(axis=-1) >= 1e-3):
        c = 10 ** rng.uniform(-2, 2, size=(*m.shape[:-1], 1))
        m2 = m * c
        M2 = m2 if mode == 'plain' else np.moveaxis(m2, [nl, nl + 1], [spos, tpos])
        got2 = ctx.lib(f, X, M2, **kw)
        require_close(got2, got, 'psd-invariant-to-mask-scale',
                      atol=max(1e-9, 10 * rt) * max(scale, 1e-300))
        ctx.label('mask-scale-checked')
    # "for all complex observations": a recording whose squares leave the double
    # range (|x| of 1e-160 or 1e160) under a mask whose level brings every term
    # m x x^H back into it - exact powers of two, so the result is the one above
    # times a power of two; an all-zero mask still gives exact zeros
    if d.epoch >= 3 and M is not None and X.dtype == np.complex128 and \
            (m.dtype == np.float64 or mkind == 'zero') and scale > 0 or \
            (d.epoch >= 3 and M is not None and mkind == 'zero' and X.dtype == np.complex128):
        aux = d.aux(106)
        if int(aux.integers(0, 3)) == 0:
            sign = 1 if aux.integers(0, 2) else -1
            ex, em = sign * int(aux.integers(515, 541)), -sign * int(aux.integers(690, 711))
            X3 = X * 2.0 ** ex
            if mkind == 'zero':
                got3 = ctx.lib(f, X3, M, **kw)
                require(np.all(np.isfinite(got3)) and np.all(got3 == 0),
                        'zero-mask-gives-zero-matrix', f'observations of level 2^{ex}')
                ctx.label('extreme-level-zero-mask')
            elif not normalize and m.dtype == np.float64:
                M3 = M * 2.0 ** em
                got3 = ctx.lib(f, X3, M3, **kw)
                fac = 2.0 ** (em + 2 * ex)
                require_close(got3, np.asarray(got) * fac,
                              'psd-is-mask-weighted-mean-outer-product',
                              atol=1e-12 * scale * fac,
                              what=f'observations times 2^{ex}, mask times 2^{em}', mask=mode)
                ctx.label('extreme-level-compensated')
    ctx.nontrivial(mode == 'source' and K >= 2 and (
        layout != 'default' or 'source_dim' in kw or mkind == 'bool'
        or len({T, D, K}) == 3))


@subcheck(SUBCHECKS, 'sparse_masks', quick=1000, thorough=8000, fuzz=3000)
def sparse_masks(d, ctx):
    """masks that select nothing or a single frame, in every dtype the property
    names (boolean, real), without and with leading axes and a source axis:
    "zero mask gives a finite, zero matrix"; a single selected frame gives its
    outer product"""
    f = _psd()
    lead = tuple(d.int(1, 3) for _ in range(d.int(0, 2)))
    D, T = d.int(1, 6), d.int(1, 9)
    K = d.int(1, 3)
    with_source = d.bool()
    normalize = d.bool()
    dt = d.choice(['bool', 'bool', 'float64', 'float32'])    # the property: float or boolean
    select = d.choice(['nothing', 'nothing', 'one-frame', 'nothing-in-one-slice'])
    rng = d.rng()
    x = gen.cnormal(rng, (*lead, D, T)) * d.log10(-2, 2)
    mshape = (*lead, K, T) if with_source else (*lead, T)
    m = np.zeros(mshape)
    if select == 'one-frame':
        m[..., d.int(0, T - 1)] = 1
    elif select == 'nothing-in-one-slice':
        m[...] = rng.uniform(size=mshape) > 0.5
        m.reshape(-1, T)[d.int(0, m.size // T - 1)] = 0
    m = m.astype({'bool': bool, 'float64': np.float64, 'float32': np.float32}[dt])
    kw = {} if normalize else {'normalize': False}
    x_in, m_in = np.array(x), np.array(m)
    x_in.setflags(write=False)
    m_in.setflags(write=False)
    got = ctx.lib(f, x_in, m_in, **kw)
    ctx.describe(lead=lead, D=D, T=T, K=K, source_axis=with_source, dtype=dt,
                 select=select, normalize=normalize)
    ctx.label(dt, select, 'source' if with_source else 'plain', f'nlead={len(lead)}')
    ref_shape = (*lead, K, D, D) if with_source else (*lead, D, D)
    require(np.shape(got) == ref_shape, 'psd-shape', f'{np.shape(got)} expected {ref_shape}')
    require(np.all(np.isfinite(got)), 'psd-finite',
            f'{int(np.sum(~np.isfinite(got)))} non-finite entries for a {dt} mask '
            f'selecting {select}')
    ref = np.empty(ref_shape, dtype=np.complex128)
    for idx in np.ndindex(*lead):
        if with_source:
            for k in range(K):
                ref[idx][k] = ob.psd(x[idx], m[idx][k].astype(float), normalize)
        else:
            ref[idx] = ob.psd(x[idx], m[idx].astype(float), normalize)
    scale = max(float(np.max(np.abs(ref))), 1e-300)
    require_close(got, ref, 'psd-is-mask-weighted-mean-outer-product',
                  atol=(1e-5 if dt == 'float32' else 1e-10) * scale + 1e-300,
                  what=f'{dt} mask selecting {select}', mask='sparse')
    ctx.nontrivial(select != 'one-frame' or T >= 2)


@subcheck(SUBCHECKS, 'condition_covariance', quick=1200, thorough=9000)
def condition_covariance(d, ctx):
    from pb_bss.extraction.beamformer import condition_covariance as cc
    lead = tuple(d.int(1, 4) for _ in range(d.int(0, 3)))
    D = d.int(1, 8)
    gamma = d.choice([0.0, 1e-6, 1e-2, 1.0]) if d.bool() else d.log10(-8, 2)
    rng = d.rng()
    rank = d.int(1, D)
    a = gen.cnormal(rng, (*lead, D, rank))
    phi = a @ np.swapaxes(a.conj(), -1, -2) * d.log10(-6, 6)
    phi_in = np.array(phi)
    phi_in.setflags(write=False)
    got = ctx.lib(cc, phi_in, gamma)
    ctx.describe(lead=lead, D=D, gamma=gamma, rank=rank)
    require(np.shape(got) == phi.shape, 'shape', f'{np.shape(got)}')
    for idx in np.ndindex(*lead):
        p = phi[idx]
        ref = (p + gamma * np.trace(p) / D * np.eye(D)) / (1 + gamma)
        s = float(np.max(np.abs(ref)))
        require_close(got[idx], ref, 'condition_covariance-formula',
                      atol=1e-12 * s, what=f'idx={idx}')
        require(abs(np.trace(got[idx]) - np.trace(p)) <= 1e-10 * abs(np.trace(p)),
                'condition_covariance-preserves-trace', '')
        ev = np.linalg.eigvalsh((got[idx] + got[idx].conj().T) / 2)
        require(ev.min() >= -1e-12 * s, 'condition_covariance-psd', f'{ev.min()}')
    require(np.array_equal(phi_in, phi), 'arguments-modified', '')
    ctx.nontrivial(len(lead) >= 1 and D >= 2 and gamma > 0)
    ctx.label(f'nlead={len(lead)}', f'D={D}')
