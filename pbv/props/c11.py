"""C11 - MVDR, LCMV and Wiener beamformers: constraints and optimality."""
import numpy as np

from pbv import gen
from pbv.core import Borderline, Violation, require, require_close, subcheck
from pbv.oracles import beamforming as ob

SUBCHECKS = []
RULE = (
    'D 2..8, F 1..32 (F != D drawn preferentially), K 1..3 stacked steering '
    'vectors, HPD noise/target PSDs U diag(l) U^H with condition number 1..1e6 '
    'and scales 1e-6..1e6, rank-one and full-rank targets, every reference '
    'channel, mu in [0, 100]. Oracles: loop-level closed forms, constraint '
    'residuals, 8 generated distortionless competitors, criterion values of '
    'the reference-channel selection recomputed per channel. Non-trivial: '
    'F != D and cond >= 10. Distinct = distinct recorded choice sequence.'
)


def _bf():
    import pb_bss.extraction.beamformer as bf
    return bf


def _dims(d):
    D = d.int(2, 8)
    F = d.choice([1, 2, 3, 5, 9, 16, 32]) if d.bool() else d.int(1, 12)
    if F == D and d.int(0, 3) != 0:
        F += 1
    cond = d.log10(0, 6)
    scale = d.log10(-6, 6) if d.bool() else 1.0
    return D, F, cond, scale


@subcheck(SUBCHECKS, 'mvdr', quick=1400, thorough=12000)
def mvdr(d, ctx):
    bf = _bf()
    D, F, cond, scale = _dims(d)
    form = d.choice(['(F,D)', '(K,F,D)', '(D,)', '(K,F,D)+noise(K,F,D,D)'])
    rng = d.rng()
    K = d.int(1, 3)
    if form == '(D,)':
        F = 1
        phi = gen.vary(d, gen.hpd(rng, D, cond, scale), 101)
        a = gen.cnormal(rng, (D,))
        lead = ()
    elif form == '(F,D)':
        phi = gen.vary(d, gen.structure(d, gen.hpd(rng, D, cond, scale, (F,)), 112), 102)
        a = gen.cnormal(rng, (F, D))
        lead = (F,)
    elif form == '(K,F,D)':
        phi = gen.vary(d, gen.structure(d, gen.hpd(rng, D, cond, scale, (F,)), 113), 103)
        a = gen.cnormal(rng, (K, F, D))
        lead = (K, F)
    else:
        phi = gen.vary(d, gen.hpd(rng, D, cond, scale, (K, F)), 104)
        a = gen.cnormal(rng, (K, F, D))
        lead = (K, F)
    a = a * 10 ** rng.uniform(-2, 2, size=(*a.shape[:-1], 1))
    # bins and sources are independent problems: in one case of three the
    # levels differ by many orders of magnitude between them (steering gains
    # 1e-6..1e6, noise levels 1e-9..1e9 per bin)
    aux = d.aux(111)
    if aux.integers(0, 3) == 0:
        a = a * 10.0 ** aux.uniform(-6, 6, size=(*a.shape[:-1], 1))
        if phi.ndim > 2:
            phi = phi * 10.0 ** aux.uniform(-9, 9, size=(*phi.shape[:-2], 1, 1))
        ctx.label('levels-spread')
    ctx.describe(D=D, F=F, K=K, cond=cond, scale=scale, form=form)
    ctx.label(form, 'F==D' if F == D else 'F!=D')
    a_in, phi_in = np.array(a), np.array(phi)
    w = ctx.lib(bf.get_mvdr_vector, a_in, phi_in)
    require(np.array_equal(a_in, a) and np.array_equal(phi_in, phi),
            'arguments-modified', '')
    require(np.shape(w) == a.shape, 'mvdr-shape', f'{np.shape(w)} vs {a.shape}')
    for idx in np.ndindex(*lead):
        p = phi[idx[-phi.ndim + 2:]] if phi.ndim > 2 else phi
        ai, wi = a[idx], w[idx]
        c = wi.conj() @ ai
        require(abs(c - 1) <= 1e-9 * cond + 1e-10, 'mvdr-distortionless',
                f'w^H a = {c} idx={idx}')
        ref = ob.mvdr(ai, p)
        require_close(wi, ref, 'mvdr-closed-form', rtol=1e-9 * cond, atol=0,
                      what=f'idx={idx}')
        pw = (wi.conj() @ ob.hermitian(p) @ wi).real
        P = np.eye(D) - np.outer(ai, ai.conj()) / (ai.conj() @ ai).real
        for _ in range(8):
            u = gen.cnormal(rng, (D,)) * np.linalg.norm(wi) * 10 ** rng.uniform(-3, 1)
            v = wi + P @ u
            pv = (v.conj() @ ob.hermitian(p) @ v).real
            require(pw <= pv * (1 + 1e-8 * cond) + 1e-300, 'mvdr-not-minimum-variance',
                    f'w: {pw} competitor: {pv}')
    ctx.nontrivial(F != D and cond >= 10)


@subcheck(SUBCHECKS, 'lcmv', quick=700, thorough=6000)
def lcmv(d, ctx):
    bf = _bf()
    D, F, cond, scale = _dims(d)
    K = d.int(1, min(3, D))
    rng = d.rng()
    phi = gen.vary(d, gen.structure(d, gen.hpd(rng, D, min(cond, 1e4), scale, (F,)), 115), 105)
    atf = gen.cnormal(rng, (K, F, D))
    rk = d.choice(['onehot', 'real', 'ones'])
    if rk == 'onehot':
        r = np.zeros(K)
        r[d.int(0, K - 1)] = 1
    elif rk == 'ones':
        r = np.ones(K)
    else:
        r = np.round(rng.uniform(-2, 2, size=K), 2)
    ctx.describe(D=D, F=F, K=K, cond=cond, response=r)
    w = ctx.lib(bf.get_lcmv_vector, atf, r, phi)
    require(np.shape(w) == (F, D), 'lcmv-shape', f'{np.shape(w)}')
    for f in range(F):
        # Gram matrix of the constraints must be well conditioned
        G = atf[:, f].conj() @ np.linalg.solve(phi[f], atf[:, f].T)
        if np.linalg.cond(G) > 1e6:
            raise Borderline('nearly dependent steering vectors')
        # the library stores the response in single precision (its one
        # documented-by-code rounding: |r_k - float32(r_k)|, zero for 0/1
        # responses); beyond that the constraint residual is the backward error
        # of the two solves, eps * (cond(G) + cond(Phi)) with a margin of 1e4
        condG = float(np.linalg.cond(G))
        condP = float(np.linalg.cond(phi[f]))
        back = 1e-12 * (condG + condP) * (1 + np.abs(r).max())
        for k in range(K):
            c = w[f].conj() @ atf[k, f]
            cast = abs(complex(np.complex64(r[k])) - r[k]) * 1.01
            require(abs(c - r[k]) <= cast + back,
                    'lcmv-constraint', f'f={f} k={k}: w^H a = {c}, r = {r[k]} '
                    f'(cond G {condG:.1e}, allowed {cast + back:.1e})')
        ref = ob.lcmv(atf[:, f], r, phi[f])
        # w = M r with M = Phi^-1 A G^-1 (up to conjugation conventions): the
        # single-precision storage of r moves w by at most |M|_2 |r - float32(r)|
        dr = np.asarray(r).astype(np.complex64).astype(np.complex128) - r
        Mmat = np.linalg.solve(phi[f], atf[:, f].T) @ np.linalg.inv(G)
        sens = float(np.linalg.norm(Mmat, 2)) * float(np.linalg.norm(dr))
        require_close(w[f], ref, 'lcmv-closed-form',
                      atol=2.0 * sens + np.linalg.norm(ref) * back * max(1.0, condG) + 1e-300)
        # minimum variance among all vectors meeting the constraints: add any
        # vector orthogonal to every steering vector
        A = atf[:, f].T                                        # (D, K)
        Q, _ = np.linalg.qr(A, mode='complete')
        null = Q[:, K:]                                        # orthogonal complement
        pw = (w[f].conj() @ ob.hermitian(phi[f]) @ w[f]).real
        for _ in range(6):
            if null.shape[1] == 0:
                break
            v = w[f] + null @ (gen.cnormal(rng, (null.shape[1],)) * np.linalg.norm(w[f])
                               * 10 ** rng.uniform(-2, 1))
            pv = (v.conj() @ ob.hermitian(phi[f]) @ v).real
            require(pw <= pv * (1 + 1e-4) + 1e-300, 'lcmv-not-minimum-variance',
                    f'f={f}: {pw} > competitor {pv}')
    ctx.nontrivial(K >= 2 and F != D)
    ctx.label(f'K={K}', rk)


def _target(d, rng, D, F, cond, scale, lead=None):
    lead = (F,) if lead is None else lead
    kind = d.choice(['rank1', 'rank1', 'full'])
    if kind == 'rank1':
        a = gen.cnormal(rng, (*lead, D))
        sigma = 10 ** rng.uniform(-2, 2, size=(*lead, 1, 1)) * scale
        return sigma * np.einsum('...d,...e->...de', a, a.conj()), a, kind
    return gen.hpd(rng, D, min(cond, 1e3), scale, lead), None, kind


@subcheck(SUBCHECKS, 'souden_wmwf', quick=1800, thorough=15000)
def souden_wmwf(d, ctx):
    bf = _bf()
    D, F, cond, scale = _dims(d)
    rng = d.rng()
    phi_nn = gen.vary(d, gen.structure(d, gen.hpd(rng, D, cond, scale, (F,)), 116), 106)
    phi_xx, a, tk = _target(d, rng, D, F, cond, scale * d.choice([1.0, 1e-3, 1e3]))
    ref = d.int(0, D - 1)
    mu = d.choice([0.0, 1.0, 100.0]) if d.bool() else d.float(0, 100)
    ctx.describe(D=D, F=F, cond=cond, target=tk, ref=ref, mu=mu)
    ctx.label(f'target={tk}', 'F==D' if F == D else 'F!=D')
    ws = ctx.lib(bf.get_mvdr_vector_souden, phi_xx, phi_nn, ref_channel=ref)
    ww = ctx.lib(bf.get_wmwf_vector, phi_xx, phi_nn, reference_channel=ref,
                 distortion_weight=mu)
    require(np.shape(ws) == (F, D) and np.shape(ww) == (F, D), 'shape',
            f'{np.shape(ws)} {np.shape(ww)}')
    tol = 1e-9 * cond
    for f in range(F):
        require_close(ws[f], ob.souden(phi_xx[f], phi_nn[f], ref), 'souden-closed-form',
                      rtol=tol, what=f'f={f}')
        require_close(ww[f], ob.wmwf(phi_xx[f], phi_nn[f], ref, mu), 'wmwf-closed-form',
                      rtol=tol, what=f'f={f}')
        if tk == 'rank1':
            m = ob.mvdr(a[f], phi_nn[f]) * np.conj(a[f][ref])
            require_close(ws[f], m, 'souden-equals-scaled-mvdr-for-rank-one-target',
                          rtol=1e-7 * cond, what=f'f={f}')
            c = ws[f].conj() @ a[f]
            require(abs(c - a[f][ref]) <= 1e-7 * cond * abs(a[f]).max(),
                    'souden-reproduces-target-at-reference', f'{c} vs {a[f][ref]}')
            if mu > 0:
                csum = np.linalg.cond(phi_xx[f] + mu * phi_nn[f])
                if csum <= 1e8:
                    ex = ob.wmwf_exact(phi_xx[f], phi_nn[f], ref, mu)
                    require_close(ww[f], ex, 'wmwf-is-exact-minimiser-for-rank-one-target',
                                  rtol=1e-10 * csum + 1e-9 * cond,
                                  what=f'f={f} mu={mu}')
                    ctx.label('exact-minimiser-checked')
    w0 = ctx.lib(bf.get_wmwf_vector, phi_xx, phi_nn, reference_channel=ref,
                 distortion_weight=0.0)
    require_close(w0, ws, 'wmwf-mu0-equals-souden', rtol=tol)
    # scale invariances
    c1, c2 = 10 ** rng.uniform(-12, 12, size=2) if d.bool() else 10 ** rng.uniform(-3, 3, size=2)
    require_close(ctx.lib(bf.get_mvdr_vector_souden, c1 * phi_xx, c2 * phi_nn,
                          ref_channel=ref), ws, 'souden-scale-invariance', rtol=tol)
    require_close(ctx.lib(bf.get_wmwf_vector, c1 * phi_xx, c1 * phi_nn,
                          reference_channel=ref, distortion_weight=mu), ww,
                  'wmwf-joint-scale-invariance', rtol=tol)
    ctx.nontrivial(F != D and cond >= 10)


def _criterion(mat, phi_xx, phi_nn):
    """library's output-SNR criterion per candidate reference channel"""
    F, D, _ = mat.shape
    out = np.zeros(D)
    for r in range(D):
        num = den = 0.0
        for f in range(F):
            w = mat[f][:, r]
            num += (w.conj() @ phi_xx[f] @ w).real
            den += (w.conj() @ phi_nn[f] @ w).real
        out[r] = num / max(den, np.finfo(float).tiny)
    return out


@subcheck(SUBCHECKS, 'reference_channel', quick=900, thorough=8000)
def reference_channel(d, ctx):
    bf = _bf()
    D, F, cond, scale = _dims(d)
    rng = d.rng()
    phi_nn = gen.vary(d, gen.structure(d, gen.hpd(rng, D, min(cond, 1e4), scale, (F,)), 117), 107)
    phi_nn = phi_nn * 10 ** rng.uniform(-2, 2, size=(F, 1, 1))
    phi_xx, a, tk = _target(d, rng, D, F, min(cond, 1e3), scale)
    mu = d.choice([0.0, 0.5, 1.0, 10.0, 100.0])
    which = d.choice(['souden', 'wmwf'])
    level = 1.0
    if d.epoch >= 3 and d.aux(119).integers(0, 3) == 0:
        # "invariant to positive scaling ... of both jointly": recordings of any
        # level (PSDs of 1e-30..1e10), the selection criterion is a ratio
        level = float(10.0 ** d.aux(120).uniform(-30, 10))
        phi_xx, phi_nn = phi_xx * level, phi_nn * level
    ctx.describe(D=D, F=F, which=which, mu=mu, target=tk, level=level)
    g = np.stack([np.linalg.solve(phi_nn[f], phi_xx[f]) for f in range(F)])
    tr = np.trace(g, axis1=-1, axis2=-2).real[:, None, None]
    if which == 'souden':
        w, ref = ctx.lib(bf.get_mvdr_vector_souden, phi_xx, phi_nn,
                         return_ref_channel=True)
        mat = g / tr
        require(0 <= int(ref) < D, 'reference-channel-range', f'{ref}')
        require_close(w, mat[..., int(ref)], 'souden-auto-reference-column',
                      rtol=1e-8 * cond)
    else:
        w = ctx.lib(bf.get_wmwf_vector, phi_xx, phi_nn, distortion_weight=mu)
        mat = g / (mu + tr)
        errs = [float(np.max(np.abs(w - mat[..., r]))) for r in range(D)]
        ref = int(np.argmin(errs))
        require(errs[ref] <= 1e-8 * cond * float(np.max(np.abs(mat))),
                'wmwf-auto-reference-is-no-column', f'{errs}')
    crit = _criterion(mat, phi_xx, phi_nn)
    best = crit.max()
    require(crit[int(ref)] >= best * (1 - 1e-7) - 1e-300,
            'reference-channel-does-not-maximise-criterion',
            f'{which} mu={mu}: chosen {int(ref)} value {crit[int(ref)]:.6g}, best '
            f'{int(np.argmax(crit))} value {best:.6g}', which=which)
    ctx.nontrivial(F >= 2 and (which == 'souden' or mu > 0))
    ctx.label(which, f'target={tk}')


@subcheck(SUBCHECKS, 'wmwf_options', quick=800, thorough=7000)
def wmwf_options(d, ctx):
    """rarely used keywords of the Wiener filter / Souden MVDR"""
    bf = _bf()
    D, F, cond, scale = _dims(d)
    rng = d.rng()
    single = d.int(0, 3) == 0
    phi_nn = gen.vary(d, gen.structure(d, gen.hpd(rng, D, min(cond, 1e3), scale, (F,)), 118), 108)
    phi_xx, a, tk = _target(d, rng, D, F, min(cond, 1e3), scale)
    if single:
        phi_nn, phi_xx = phi_nn.astype(np.complex64), phi_xx.astype(np.complex64)
    tol = (1e-3 if single else 1e-9) * min(cond, 1e3)
    which = d.choice(['channel_selection_vector', 'frequency_dependent', 'souden-eps'])
    ctx.describe(D=D, F=F, which=which, single=single)
    ctx.label(which, 'single' if single else 'double')
    g = np.stack([np.linalg.solve(phi_nn[f].astype(np.complex128),
                                  phi_xx[f].astype(np.complex128)) for f in range(F)])
    tr = np.trace(g, axis1=-1, axis2=-2)[:, None, None]
    if which == 'channel_selection_vector':
        mu = d.choice([0.0, 1.0, 10.0])
        kind = d.choice(['one-hot', 'weights'])
        if kind == 'one-hot':
            ref = d.int(0, D - 1)
            sel = np.zeros((F, D))
            sel[:, ref] = 1
        else:
            sel = rng.uniform(size=(F, D))
        got = ctx.lib(bf.get_wmwf_vector, phi_xx, phi_nn, channel_selection_vector=sel,
                      distortion_weight=mu)
        filt = g / (mu + tr)
        exp = np.einsum('fdc,fc->fd', filt, sel)
        require_close(got, exp, 'wmwf-channel-selection-vector', rtol=tol, atol=1e-300)
        if kind == 'one-hot':
            one = ctx.lib(bf.get_wmwf_vector, phi_xx, phi_nn, reference_channel=ref,
                          distortion_weight=mu)
            require_close(got, one, 'wmwf-one-hot-selection-differs-from-reference-channel',
                          rtol=tol, atol=1e-300)
    elif which == 'frequency_dependent':
        ref = d.int(0, D - 1)
        got = ctx.lib(bf.get_wmwf_vector, phi_xx, phi_nn, reference_channel=ref,
                      distortion_weight='frequency_dependent')
        w = np.sqrt(phi_xx[:, 0:1, 0:1].astype(np.complex128) * tr)
        exp = (g / w)[..., ref]
        require_close(got, exp, 'wmwf-frequency-dependent-weight', rtol=tol, atol=1e-300)
    else:
        ref = d.int(0, D - 1)
        eps = d.choice([None, 1e-30, 1e-10])
        got = ctx.lib(bf.get_mvdr_vector_souden, phi_xx, phi_nn, ref_channel=ref, eps=eps)
        exp = (g / tr)[..., ref]
        require_close(got, exp, 'souden-eps-changes-regular-bins', rtol=tol, atol=1e-300)
        w2, r2 = ctx.lib(bf.get_mvdr_vector_souden, phi_xx, phi_nn, ref_channel=ref,
                         return_ref_channel=True)
        require(r2 == ref and np.array_equal(w2, ctx.lib(
            bf.get_mvdr_vector_souden, phi_xx, phi_nn, ref_channel=ref)),
            'souden-return_ref_channel', f'{r2}')
    ctx.nontrivial(F != D)
