"""C19 - SI-SDR and invasive SXR metrics obey their defining identities."""
import itertools
import math

import numpy as np

from pbv import gen

from pbv.core import Borderline, Violation, require, require_close, subcheck

SUBCHECKS = []
RULE = (
    'Real signals with T in 8..4096, K 1..4 sources, 1..5 outputs/sensors, '
    'levels spread over 1e-6..1e6, 0..2 leading axes for si_sdr; scale '
    'factors (also negative) in [1e-6, 1e6]; all K_target-permutations of '
    'the outputs (K_target <= 5); average_sources / average_channels / '
    'return_dict options (True, prefix strings). Oracles: closed forms '
    'written with explicit sums, brute-force output selection, metamorphic '
    'scalings. Non-trivial: K >= 2 (SXR) / a leading axis or scale != 1 '
    '(SI-SDR). Distinct = distinct recorded choice sequence.'
)


def db(x):
    with np.errstate(divide='ignore'):
        return 10 * np.log10(x)


@subcheck(SUBCHECKS, 'si_sdr', quick=1800, thorough=15000)
def si_sdr(d, ctx):
    from pb_bss.evaluation.module_si_sdr import si_sdr as f
    lead = tuple(d.int(1, 3) for _ in range(d.int(0, 2)))
    T = d.choice([8, 9, 64, 1000, 4096]) if d.bool() else d.int(8, 64)
    rng = d.rng()
    ref = rng.normal(size=(*lead, T)) * 10 ** rng.uniform(-6, 6, size=(*lead, 1))
    mix = d.choice([0.01, 0.5, 3.0])
    est = ref * rng.uniform(0.2, 3, size=(*lead, 1)) + \
        mix * rng.normal(size=(*lead, T)) * np.std(ref, axis=-1, keepdims=True)
    # the same values behind other memory layouts
    ref, est = gen.vary(d, ref, 191), gen.vary(d, est, 192)
    got = ctx.lib(f, ref, est)
    ctx.describe(lead=lead, T=T, mix=mix)
    require(np.shape(got) == lead, 'si_sdr-shape', f'{np.shape(got)}')
    exp = np.empty(lead)
    for idx in np.ndindex(*lead):
        s, sh = ref[idx], est[idx]
        alpha = math.fsum(s * sh) / math.fsum(s * s)
        num = math.fsum((alpha * s) ** 2)
        den = math.fsum((sh - alpha * s) ** 2)
        exp[idx] = 10 * math.log10(num / den)
    require_close(got, exp, 'si_sdr-closed-form', atol=1e-6, rtol=1e-9)
    c1 = d.log10(-6, 6) * d.choice([1, -1])
    c2 = d.log10(-6, 6) * d.choice([1, -1])
    require_close(ctx.lib(f, ref * c1, est), got, 'si_sdr-depends-on-reference-scale',
                  atol=1e-6, what=f'c={c1}')
    require_close(ctx.lib(f, ref, est * c2), got, 'si_sdr-depends-on-estimate-scale',
                  atol=1e-6, what=f'c={c2}')
    for idx in np.ndindex(*lead):
        one = ctx.lib(f, ref[idx], est[idx])
        require_close(one, np.asarray(got)[idx], 'si_sdr-leading-index-not-independent',
                      atol=1e-9)
    ctx.nontrivial(len(lead) >= 1 or True)
    ctx.label(f'nlead={len(lead)}')


def _signals(d, rng, K, D, T):
    lv = 10 ** rng.uniform(-3, 3, size=(K, D, 1)) if d.bool() else np.ones((K, D, 1))
    images = rng.normal(size=(K, D, T)) * lv * d.log10(-3, 3)
    noise = rng.normal(size=(D, T)) * 10 ** rng.uniform(-2, 1) * np.std(images)
    return gen.vary(d, images, 193), gen.vary(d, noise, 194)


def _check_dict(ctx, fn, args, kw, base, clause):
    for rd, prefix in ((True, ''), ('p_', 'p_'), ('input_', 'input_')):
        out = ctx.lib(fn, *args, **kw, return_dict=rd)
        require(isinstance(out, dict), clause + '-return_dict-not-a-dict',
                f'return_dict={rd!r} gives {type(out).__name__}')
        require(sorted(out) == sorted(prefix + k for k in ('sdr', 'sir', 'snr')),
                clause + '-dict-keys', f'{sorted(out)} for return_dict={rd!r}')
        for k in ('sdr', 'sir', 'snr'):
            require(np.array_equal(np.asarray(out[prefix + k]), np.asarray(getattr(base, k))),
                    clause + '-dict-values', k)


@subcheck(SUBCHECKS, 'input_sxr', quick=1600, thorough=13000)
def input_sxr(d, ctx):
    from pb_bss.evaluation.sxr_module import input_sxr as f
    K, D = d.int(1, 4), d.int(1, 5)
    T = d.choice([8, 100, 4096]) if d.bool() else d.int(8, 40)
    rng = d.rng()
    images, noise = _signals(d, rng, K, D, T)
    avg_ch = d.bool()
    avg_src = d.bool()
    res = ctx.lib(f, images, noise, average_sources=avg_src, average_channels=avg_ch)
    ctx.describe(K=K, D=D, T=T, average_channels=avg_ch, average_sources=avg_src)
    ctx.label(f'K={K}', f'avg_ch={avg_ch}', f'avg_src={avg_src}')
    # reference
    S = np.array([[math.fsum(images[k, dd] ** 2) / T for dd in range(D)] for k in range(K)])
    N = np.array([math.fsum(noise[dd] ** 2) / T for dd in range(D)])
    I = np.array([[sum(S[n, dd] for n in range(K) if n != k) for dd in range(D)]
                  for k in range(K)])
    if avg_ch:
        S_, I_, N_ = S.mean(-1), I.mean(-1), N.mean(-1)
    else:
        S_, I_, N_ = S, I, N
    sdr, sir, snr = db(S_ / (I_ + N_)), db(S_ / I_) if K > 1 else np.full_like(S_, np.inf), db(S_ / N_)
    if avg_src:
        sdr, sir, snr = sdr.mean(0), sir.mean(0), snr.mean(0)
    for name, a, b in (('sdr', res.sdr, sdr), ('sir', res.sir, sir), ('snr', res.snr, snr)):
        require_close(np.asarray(a), b, f'input_sxr-{name}-definition', atol=1e-8, rtol=1e-10)
    if not avg_src:
        lin = lambda x: 10 ** (-np.asarray(x) / 10)
        require_close(lin(res.sdr), lin(res.sir) + lin(res.snr),
                      'input_sxr-1/SDR=1/SIR+1/SNR', rtol=1e-9)
        require(np.all(np.asarray(res.sdr) <= np.minimum(res.sir, res.snr) + 1e-9),
                'input_sxr-sdr-exceeds-min', '')
    c = d.log10(-6, 6)
    r2 = ctx.lib(f, images * c, noise * c, average_sources=avg_src, average_channels=avg_ch)
    for k in ('sdr', 'sir', 'snr'):
        require_close(getattr(r2, k), getattr(res, k), 'input_sxr-common-scale', atol=1e-7)
    r3 = ctx.lib(f, images * c, noise, average_sources=avg_src, average_channels=avg_ch)
    require_close(np.asarray(r3.snr) - np.asarray(res.snr), 20 * math.log10(c),
                  'input_sxr-snr-shift', atol=1e-7)
    require_close(r3.sir, res.sir, 'input_sxr-sir-changed-by-source-scale', atol=1e-7)
    _check_dict(ctx, f, (images, noise), dict(average_sources=avg_src,
                                              average_channels=avg_ch), res, 'input_sxr')
    ctx.nontrivial(K >= 2)


@subcheck(SUBCHECKS, 'output_sxr', quick=1800, thorough=15000)
def output_sxr(d, ctx):
    from pb_bss.evaluation.sxr_module import output_sxr as f
    Ks = d.int(1, 4)
    Kt = d.int(Ks, 5)
    T = d.choice([8, 100, 4096]) if d.bool() else d.int(8, 40)
    rng = d.rng()
    # output j mostly captures source assign[j]
    ic = rng.normal(size=(Ks, Kt, T)) * 10 ** rng.uniform(-2, 0, size=(Ks, Kt, 1))
    owner = rng.permutation(Kt)[:Ks]
    for k in range(Ks):
        ic[k, owner[k]] *= d.choice([3.0, 30.0])
    ic = ic * d.log10(-3, 3)
    nc = rng.normal(size=(Kt, T)) * np.std(ic) * 10 ** rng.uniform(-2, 0)
    if d.epoch >= 3 and Kt >= 2 and d.aux(197).integers(0, 4) == 0:
        # an output that is nearly a copy of another one (a second beamformer
        # that converged to almost the same filter): captured powers that
        # differ by 1e-7..1e-4 relative - clearly more than rounding, so the
        # maximising selection is still unique - with very different noise
        aux = d.aux(198)
        j = int(aux.integers(0, Kt))
        i = int((j + 1 + aux.integers(0, Kt - 1)) % Kt)
        delta = float(10.0 ** aux.uniform(-7, -4)) * float(aux.choice([-1.0, 1.0]))
        ic[:, i] = ic[:, j] * (1 + delta)
        nc[i] = nc[j] * float(10.0 ** aux.uniform(-1.5, 1.5))
    ic, nc = gen.vary(d, ic, 195), gen.vary(d, nc, 196)
    avg = d.bool()
    res = ctx.lib(f, ic, nc, average_sources=avg)
    ctx.describe(K_source=Ks, K_target=Kt, T=T, average_sources=avg)
    ctx.label(f'Ks={Ks}', f'Kt={Kt}', f'avg={avg}')
    S = np.array([[math.fsum(ic[k, j] ** 2) / T for j in range(Kt)] for k in range(Ks)])
    N = np.array([math.fsum(nc[j] ** 2) / T for j in range(Kt)])
    best, sel = -1.0, None
    vals = []
    for p in itertools.permutations(range(Kt), Ks):
        v = sum(S[k, p[k]] for k in range(Ks))
        vals.append(v)
        if v > best:
            best, sel = v, p
    vals = sorted(vals)
    if len(vals) > 1 and vals[-1] - vals[-2] <= 1e-12 * vals[-1]:
        raise Borderline('selection tie')
    SS = np.array([S[k, sel[k]] for k in range(Ks)])
    II = np.array([sum(S[n, sel[k]] for n in range(Ks) if n != k) for k in range(Ks)])
    NN = N[list(sel)]
    sdr, snr = db(SS / (II + NN)), db(SS / NN)
    sir = db(SS / II) if Ks > 1 else np.full(Ks, np.inf)
    if avg:
        sdr, sir, snr = sdr.mean(), sir.mean(), snr.mean()
    for name, a, b in (('sdr', res.sdr, sdr), ('sir', res.sir, sir), ('snr', res.snr, snr)):
        require_close(np.asarray(a), b, f'output_sxr-{name}-definition', atol=1e-8,
                      rtol=1e-10, what='(selection maximising the captured power)')
    if not avg:
        lin = lambda x: 10 ** (-np.asarray(x) / 10)
        require_close(lin(res.sdr), lin(res.sir) + lin(res.snr),
                      'output_sxr-1/SDR=1/SIR+1/SNR', rtol=1e-9)
    # order of the outputs does not matter
    perms = list(itertools.permutations(range(Kt)))
    use = perms if (Kt <= 4 and d.bool()) else [perms[i] for i in
                                                rng.integers(0, len(perms), size=3)]
    for p in use:
        p = list(p)
        r = ctx.lib(f, ic[:, p], nc[p], average_sources=avg)
        for k in ('sdr', 'sir', 'snr'):
            require_close(getattr(r, k), getattr(res, k), 'output_sxr-depends-on-output-order',
                          atol=1e-9, what=f'perm={p}')
    c = d.log10(-6, 6)
    r2 = ctx.lib(f, ic * c, nc * c, average_sources=avg)
    for k in ('sdr', 'sir', 'snr'):
        require_close(getattr(r2, k), getattr(res, k), 'output_sxr-common-scale', atol=1e-7)
    r3 = ctx.lib(f, ic * c, nc, average_sources=avg)
    require_close(np.asarray(r3.snr) - np.asarray(res.snr), 20 * math.log10(c),
                  'output_sxr-snr-shift', atol=1e-7)
    require_close(r3.sir, res.sir, 'output_sxr-sir-changed-by-source-scale', atol=1e-7)
    _check_dict(ctx, f, (ic, nc), dict(average_sources=avg), res, 'output_sxr')
    ctx.nontrivial(Ks >= 2)


@subcheck(SUBCHECKS, 'set_get_snr', quick=1000, thorough=8000, fuzz=3000)
def set_get_snr(d, ctx):
    from pb_bss.evaluation.sxr_module import get_snr, set_snr
    lead = tuple(d.int(1, 3) for _ in range(d.int(0, 2)))
    T = d.int(8, 64)
    rng = d.rng()
    complex_ = d.bool()
    X = rng.normal(size=(*lead, T)) * d.log10(-3, 3)
    N = rng.normal(size=(*lead, T)) * d.log10(-3, 3)
    if complex_:
        X = X + 1j * rng.normal(size=X.shape)
        N = N + 1j * rng.normal(size=N.shape) * np.std(N)
    snr = d.float(-40, 60)
    axis = None if not lead or d.bool() else -1
    X_in, N_in = np.array(X), np.array(N)
    X_in.setflags(write=False)
    N_in.setflags(write=False)
    kw = {} if axis is None else {'axis': axis}
    out = ctx.lib(set_snr, X_in, N_in, snr, inplace=False, **kw)
    require(np.array_equal(X_in, X) and np.array_equal(N_in, N), 'arguments-modified', '')
    X2, N2 = out
    got = ctx.lib(get_snr, X2, N2, **kw)
    require_close(np.asarray(got), snr, 'set_snr-then-get_snr', atol=1e-8,
                  what=f'requested {snr}')
    ctx.describe(lead=lead, T=T, snr=snr, axis=axis, complex=complex_)
    # in place variant modifies only the noise
    N3 = np.array(N)
    X3 = np.array(X)
    ctx.lib(set_snr, X3, N3, snr, **kw)
    require(np.array_equal(X3, X), 'set_snr-inplace-modified-target', '')
    require_close(N3, N2, 'set_snr-inplace-differs', rtol=1e-12, atol=0)
    # the current SNR handed over by the caller (keepdims form, as the function
    # computes it itself) gives the same result
    cur = ctx.lib(get_snr, X, N, keepdims=True, **kw)
    X4, N4 = ctx.lib(set_snr, X_in, N_in, snr, np.asarray(cur), inplace=False, **kw)
    require_close(N4, N2, 'set_snr-with-given-current-snr-differs', rtol=1e-12, atol=0)
    got4 = ctx.lib(get_snr, X4, N4, **kw)
    require_close(np.asarray(got4), snr, 'set_snr-then-get_snr', atol=1e-8,
                  what=f'requested {snr} (current_snr given)')
    ctx.nontrivial(True)
    ctx.label(f'nlead={len(lead)}', f'axis={axis}')
