"""C12 - GEV and PCA beamformers maximise their Rayleigh quotients; BAN only
rescales."""
import numpy as np

from pbv import gen
from pbv.core import Borderline, Violation, require, require_close, subcheck
from pbv.oracles import beamforming as ob

SUBCHECKS = []
RULE = (
    'D 2..8, 0..2 leading axes (sizes 1..4), Hermitian PSD targets (full '
    'rank, low rank, exactly rank one) and HPD noise matrices with condition '
    'number 1..1e6, scales 1e-6..1e6, use_eig in {False, True}, PCA scalings '
    'None/trace/eigenvalue, 16 probe vectors and all wrapper beamformers as '
    'competitors. Generalised eigenvalues are computed independently by '
    'Cholesky whitening + eigvalsh. Non-trivial: D >= 3 or a leading axis, '
    'and cond >= 10. Distinct = distinct recorded choice sequence.'
)

OTHER_NAMES = ['pca', 'pca+mvdr', 'scaled_gev_atf+mvdr', 'mvdr_souden',
               'rank1_pca+mvdr_souden', 'rank1_gev+mvdr_souden', 'gev',
               'rank1_pca+gev', 'rank1_gev+gev', 'wmwf', 'rank1_pca+wmwf',
               'rank1_gev+wmwf', 'ch0']


def _mods():
    import pb_bss.extraction.beamformer as bf
    import pb_bss.extraction.beamformer_wrapper as bw
    return bf, bw


def _psds(d, rng, lead, D):
    cond = d.log10(0, 6)
    scale = d.log10(-6, 6) if d.bool() else 1.0
    phi_nn = gen.vary(d, gen.structure(d, gen.hpd(rng, D, cond, scale, lead), 121), 101)
    tk = d.choice(['full', 'lowrank', 'rank1'])
    if tk == 'full':
        phi_xx = gen.vary(d, gen.hpd(rng, D, d.log10(0, 4), scale * 10 ** rng.uniform(-2, 2), lead), 102)
        a = None
    else:
        r = 1 if tk == 'rank1' else d.int(1, D)
        a = gen.cnormal(rng, (*lead, D, r))
        phi_xx = a @ np.swapaxes(a.conj(), -1, -2) * scale
    # a real symmetric PSD is Hermitian too (real-valued target and/or noise)
    dt = d.choice(['complex', 'complex', 'complex', 'real-target', 'real-both'])
    if dt != 'complex':
        if tk == 'full':
            phi_xx = gen.spd(rng, D, 10, scale, lead)
        else:
            a = rng.normal(size=a.shape) + 0j
            phi_xx = (a @ np.swapaxes(a.conj(), -1, -2)).real * scale
        if dt == 'real-both':
            phi_nn = gen.spd(rng, D, cond, scale, lead)
    if d.epoch >= 3 and d.aux(122).integers(0, 8) == 0:
        # exactly structured matrices with small integer entries (a target
        # p v v^T + q I with v in {-1, 0, 1}^D - e.g. two sensors exactly out of
        # phase - and noise s I + r (J - I)): eigenvectors with entries that are
        # exactly equal, opposite or zero
        aux = d.aux(123)
        v = aux.integers(-1, 2, size=(*lead, D)).astype(float)
        v[..., 0] = 1.0
        p_, q_ = float(aux.integers(1, 5)), float(aux.integers(0, 3))
        eye = np.eye(D)
        phi_xx = (p_ * v[..., :, None] * v[..., None, :] + q_ * eye).astype(np.complex128)
        r_ = float(aux.integers(0, 2))
        s_ = float(aux.integers(1, 4)) + r_ * D
        phi_nn = np.broadcast_to(s_ * eye + r_ * (np.ones((D, D)) - eye),
                                 (*lead, D, D)).astype(np.complex128).copy()
        tk = 'rank1' if q_ == 0 else 'full'
        a = v[..., :, None].astype(np.complex128) if q_ == 0 else None
        cond = float(np.linalg.cond(phi_nn.reshape(-1, D, D)[0]))
        scale = 1.0
    return phi_xx, phi_nn, tk, cond, scale, a


@subcheck(SUBCHECKS, 'gev', quick=1400, thorough=12000)
def gev(d, ctx):
    bf, bw = _mods()
    lead = tuple(d.int(1, 4) for _ in range(d.int(0, 2)))
    D = d.int(2, 8)
    rng = d.rng()
    phi_xx, phi_nn, tk, cond, scale, _ = _psds(d, rng, lead, D)
    use_eig = d.bool()
    ctx.describe(lead=lead, D=D, target=tk, cond=cond, scale=scale, use_eig=use_eig)
    ctx.label(f'target={tk}', f'use_eig={use_eig}', f'nlead={len(lead)}')
    w = ctx.lib(bf.get_gev_vector, phi_xx, phi_nn, use_eig=use_eig)
    require(np.shape(w) == (*lead, D), 'gev-shape', f'{np.shape(w)}')
    require(np.all(np.isfinite(w)), 'gev-finite', '')
    others = {}
    if len(lead) == 1:
        for name in OTHER_NAMES:
            try:
                kw = {}
                if 'souden' in name:
                    kw['ref_channel'] = 0
                if 'wmwf' in name:
                    kw['reference_channel'] = 0
                others[name] = bw.get_bf_vector(name, phi_xx, phi_nn, **kw)
            except Exception:  # noqa  (judged by C13)
                pass
    for idx in np.ndindex(*lead):
        lam = ob.gen_eigvals(phi_xx[idx], phi_nn[idx])
        top = lam[-1]
        s = ob.snr(w[idx], phi_xx[idx], phi_nn[idx])
        tol = 1e-9 * cond * max(abs(top), 1e-300) * (1e3 if use_eig else 1) + 1e-300
        require(abs(s - top) <= tol, 'gev-snr-is-not-the-largest-generalised-eigenvalue',
                f'idx={idx}: SNR {s:.10g} lambda_max {top:.10g}', use_eig=use_eig)
        for _ in range(16):
            v = gen.cnormal(rng, (D,))
            sv = ob.snr(v, phi_xx[idx], phi_nn[idx])
            require(sv <= s + tol, 'gev-snr-exceeded-by-probe', f'{sv} > {s}')
        for name, wo in others.items():
            v = wo[idx]
            if not np.all(np.isfinite(v)) or np.linalg.norm(v) == 0:
                continue
            sv = ob.snr(v, phi_xx[idx], phi_nn[idx])
            require(sv <= s + tol * 10, 'gev-snr-exceeded-by-other-beamformer',
                    f'{name}: {sv} > {s}', name=name)
    ctx.nontrivial((D >= 3 or len(lead) >= 1) and cond >= 10)


@subcheck(SUBCHECKS, 'pca', quick=1000, thorough=9000)
def pca(d, ctx):
    bf, bw = _mods()
    lead = tuple(d.int(1, 4) for _ in range(d.int(0, 2)))
    D = d.int(2, 8)
    rng = d.rng()
    phi_xx, _, tk, cond, scale, _ = _psds(d, rng, lead, D)
    scaling = d.choice([None, 'trace', 'eigenvalue'])
    ctx.describe(lead=lead, D=D, target=tk, scaling=scaling)
    ctx.label(f'scaling={scaling}', f'target={tk}', f'nlead={len(lead)}')
    w = ctx.lib(bf.get_pca_vector, phi_xx, scaling=scaling) if scaling else \
        ctx.lib(bf.get_pca_vector, phi_xx)
    require(np.shape(w) == (*lead, D), 'pca-shape', f'{np.shape(w)}')
    for idx in np.ndindex(*lead):
        p = ob.hermitian(phi_xx[idx])
        lam = np.linalg.eigvalsh(p)
        top = lam[-1]
        n = np.linalg.norm(w[idx])
        u = w[idx] / n
        rq = (u.conj() @ p @ u).real
        require(abs(rq - top) <= 1e-9 * abs(top), 'pca-does-not-maximise-rayleigh-quotient',
                f'idx={idx}: quotient {rq:.10g} lambda_max {top:.10g}')
        expected = {None: 1.0, 'trace': np.sqrt(np.trace(p).real),
                    'eigenvalue': top}[scaling]
        require(abs(n - expected) <= 1e-9 * expected, 'pca-scaling',
                f'scaling={scaling}: norm {n:.10g} expected {expected:.10g}',
                scaling=str(scaling))
    ctx.nontrivial(D >= 3 or len(lead) >= 1)


@subcheck(SUBCHECKS, 'rank_one_estimates', quick=1200, thorough=10000)
def rank_one_estimates(d, ctx):
    bf, bw = _mods()
    lead = tuple(d.int(1, 4) for _ in range(d.int(0, 2)))
    D = d.int(2, 8)
    rng = d.rng()
    phi_xx, phi_nn, tk, cond, scale, a = _psds(d, rng, lead, D)
    which = d.choice(['pca', 'gev'])
    kw = {}
    if which == 'pca':
        sc = d.choice([None, None, 'trace', 'eigenvalue'])
        if sc:
            kw['scaling'] = sc
        est = ctx.lib(bw.get_pca_rank_one_estimate, phi_xx, **kw)
    else:
        kw['use_eig'] = d.bool()
        est = ctx.lib(bw.get_gev_rank_one_estimate, phi_xx, phi_nn, **kw)
    ctx.describe(lead=lead, D=D, target=tk, which=which, kwargs=kw, cond=cond)
    ctx.label(which, f'target={tk}', f'kw={kw}')
    require(np.shape(est) == phi_xx.shape, 'rank1-shape', f'{np.shape(est)}')
    for idx in np.ndindex(*lead):
        e, p = est[idx], phi_xx[idx]
        s = float(np.max(np.abs(p)))
        require(np.max(np.abs(e - e.conj().T)) <= 1e-9 * s * cond, 'rank1-hermitian', '')
        sv = np.linalg.svd(e, compute_uv=False)
        require(sv[1] <= 1e-9 * sv[0] * cond, 'rank1-numerical-rank-one',
                f'singular values {sv[:3]}')
        require(abs(np.trace(e) - np.trace(p)) <= 1e-9 * cond * abs(np.trace(p)),
                'rank1-preserves-trace',
                f'{which} {kw}: trace {np.trace(e):.8g} vs {np.trace(p):.8g}',
                which=which)
        if tk == 'rank1':
            require_close(e, p, 'rank1-recovers-exact-rank-one-target',
                          atol=1e-8 * cond * s, what=f'{which} {kw}', which=which)
    ctx.nontrivial(D >= 3 or len(lead) >= 1)


@subcheck(SUBCHECKS, 'ban', quick=1200, thorough=10000)
def ban(d, ctx):
    bf, bw = _mods()
    lead = tuple(d.int(1, 4) for _ in range(d.int(0, 2)))
    D = d.int(2, 8)
    rng = d.rng()
    phi_xx, phi_nn, tk, cond, scale, _ = _psds(d, rng, lead, D)
    w = gen.cnormal(rng, (*lead, D)) * 10 ** rng.uniform(-3, 3, size=(*lead, 1))
    out = ctx.lib(bf.blind_analytic_normalization, w, phi_nn)
    ctx.describe(lead=lead, D=D, cond=cond, scale=scale)
    require(np.shape(out) == w.shape, 'ban-shape', f'{np.shape(out)}')
    c = 10 ** rng.uniform(-4, 4, size=(*lead, 1)) * np.exp(2j * np.pi * rng.uniform(size=(*lead, 1)))
    out_c = ctx.lib(bf.blind_analytic_normalization, w * c, phi_nn)
    for idx in np.ndindex(*lead):
        fac = ob.ban_factor(w[idx], phi_nn[idx])
        require_close(out[idx], w[idx] * fac, 'ban-factor', rtol=1e-9 * cond,
                      what=f'idx={idx}')
        ratio = out[idx] / w[idx]
        require(np.all(np.abs(ratio.imag) <= 1e-9 * np.abs(ratio.real)) and
                np.all(ratio.real > 0), 'ban-factor-is-positive-real', f'{ratio[:2]}')
        s0 = ob.snr(w[idx], phi_xx[idx], phi_nn[idx])
        s1 = ob.snr(out[idx], phi_xx[idx], phi_nn[idx])
        require(abs(s0 - s1) <= 1e-9 * cond * abs(s0), 'ban-changes-snr', f'{s0} {s1}')
        # independent of the magnitude of the input vector
        require_close(out_c[idx], out[idx] * (c[idx] / np.abs(c[idx])),
                      'ban-depends-on-input-magnitude', rtol=1e-8 * cond)
    ctx.nontrivial(len(lead) >= 1 or D >= 3)
    ctx.label(f'nlead={len(lead)}')
