"""C07 - log_pdf is the logarithm of the named, normalised density.

Differential oracle: pbv.oracles.densities (scipy.stats, series, quadrature,
120-digit decimal arithmetic); plus direct numerical integration of the
library's own exp(log_pdf) over the complex unit sphere for D = 2.
"""
import math

import numpy as np

from pbv import gen
from pbv.core import Borderline, Violation, require, require_close, subcheck
from pbv.oracles import densities as od

SUBCHECKS = []
RULE = (
    'Parameters: D 1..8 (2..6 complex spherical families), 0..2 leading axes '
    'with different parameters per index, non-diagonal SPD/HPD covariances '
    'U diag(l) U^H with Haar U and condition number 1..1e8, concentrations '
    'log-uniform in [1e-6, 500], Bingham eigenvalue sets with pairwise gaps >= '
    '1e-3 (families: spread, clustered, mixed; any order), evaluation points '
    'near and far from the mode. Non-trivial: Gaussians - off-diagonal energy '
    '>= 10 % and cond >= 10 (or a leading axis for diagonal/spherical); '
    'spherical families - concentration >= 1e-3 and points not at the mode. '
    'Distinct = distinct recorded choice sequence.'
)
ASSUMPTIONS = [
    'reference densities: scipy.stats.multivariate_normal / vonmises_fisher, '
    'positive-term series for 1F1(1;D;k), scipy.integrate quadrature, '
    'divided differences of exp in 120-digit decimal arithmetic',
]


def _points(rng, mean, chol, N, real=True):
    D = mean.shape[-1]
    scale = np.where(rng.uniform(size=(N, 1)) < 0.5, 0.3, 5.0)
    if real:
        e = rng.normal(size=(N, D))
    else:
        e = gen.cnormal(rng, (N, D))
    return mean + scale * (e @ chol.T.conj() if chol is not None else e)


def _offset_slack(y, mean, precision):
    """first-order effect on the log density of rounding y and the mean to
    double precision (16 eps each): the subtraction y - mean is exact only up
    to the magnitude of its operands"""
    e = 16 * np.finfo(np.float64).eps
    P = np.atleast_2d(precision)
    grad = np.linalg.norm((y - mean) @ P.T, axis=-1)
    mag = np.linalg.norm(y, axis=-1) + np.linalg.norm(mean)
    return float(np.max(e * mag * grad + (e * mag) ** 2 * np.linalg.norm(P, 2)))


def _stack_call(ctx, make, evaluate, lead):
    model = ctx.lib(make)
    out = ctx.lib(evaluate, model)
    return out


# ---------------------------------------------------------------- Gaussian

@subcheck(SUBCHECKS, 'gaussian_full', quick=1000, thorough=9000)
def gaussian_full(d, ctx):
    from pb_bss.distribution import Gaussian
    D = d.int(1, 8)
    lead = gen.draw_lead(d)
    N = d.int(1, 6)
    cond = d.log10(0, 8)
    scale = d.log10(-3, 3)
    rng = d.rng()
    cov = gen.spd(rng, D, cond, scale, lead)
    mean = rng.normal(size=(*lead, D)) * np.sqrt(scale) * 3
    # "all means": also means many standard deviations away from the origin
    offset = 1.0
    if d.aux(73).integers(0, 4) == 0:
        offset = float(10.0 ** d.aux(74).uniform(2, 6))
        mean = mean * offset
    y = np.empty((*lead, N, D))
    for idx in np.ndindex(*lead):
        y[idx] = _points(rng, mean[idx], np.linalg.cholesky(cov[idx]), N)
    ctx.describe(D=D, lead=lead, N=N, cond=cond, scale=scale, mean_offset=offset)
    ctx.keep(mean=mean, covariance=cov, y=y)
    model = ctx.lib(Gaussian, mean=mean, covariance=cov)
    got = ctx.lib(model.log_pdf, y)
    require(got.shape == (*lead, N), 'shape', f'{got.shape} != {(*lead, N)}')
    for idx in np.ndindex(*lead):
        ref = od.gaussian_logpdf(y[idx], mean[idx], cov[idx])
        ref2 = od.gaussian_logpdf_scipy(y[idx], mean[idx], cov[idx])
        tol = 1e-9 + 1e-11 * cond * (1 + float(np.max(np.abs(ref))))
        tol += _offset_slack(y[idx], mean[idx], np.linalg.inv(cov[idx]))
        if not np.allclose(ref, ref2, rtol=0, atol=tol):
            # the two references disagree: numerically too hard, do not judge
            ctx.label('references-disagree')
            continue
        require_close(got[idx], ref, 'gaussian-full-logpdf', atol=tol,
                      what=f'D={D} cond={cond:.1e} idx={idx}')
    ctx.nontrivial(D >= 2 and cond >= 10 and gen.offdiag_energy(cov) >= 0.01)
    ctx.label(f'D={D}', f'lead={len(lead)}',
              'cond>=1e4' if cond >= 1e4 else 'cond<1e4')


@subcheck(SUBCHECKS, 'gaussian_diag_spherical', quick=800, thorough=7000)
def gaussian_diag_spherical(d, ctx):
    from pb_bss.distribution import DiagonalGaussian, SphericalGaussian
    kind = d.choice(['diagonal', 'spherical'])
    D = d.int(1, 8)
    lead = gen.draw_lead(d)
    N = d.int(1, 6)
    rng = d.rng()
    spread = d.log10(0, 6)
    mean = rng.normal(size=(*lead, D)) * 2
    if kind == 'diagonal':
        var = spread ** rng.uniform(-0.5, 0.5, size=(*lead, D))
    else:
        var = spread ** rng.uniform(-0.5, 0.5, size=lead)
        var = np.asarray(var)
    width = d.choice([0.3, 3.0])
    offset = 1.0
    if d.aux(75).integers(0, 4) == 0:
        # "all means": many standard deviations away from the origin, points
        # drawn around the mean with the model's own spread
        offset = float(10.0 ** d.aux(76).uniform(2, 6))
        mean = mean * offset * np.sqrt(np.max(var))
        y = mean[..., None, :] + rng.normal(size=(*lead, N, D)) * \
            np.sqrt(var[..., None, :] if kind == 'diagonal' else var[..., None, None]) * width
    else:
        y = mean[..., None, :] + rng.normal(size=(*lead, N, D)) * \
            np.sqrt(np.max(var)) * width
    ctx.describe(kind=kind, D=D, lead=lead, N=N, mean_offset=offset)
    ctx.keep(mean=mean, var=var, y=y)
    cls = DiagonalGaussian if kind == 'diagonal' else SphericalGaussian
    model = ctx.lib(cls, mean=mean, covariance=var,
                    clause=f'{kind}-construct')
    got = ctx.lib(model.log_pdf, y, clause=f'{kind}-logpdf-raises')
    require(np.shape(got) == (*lead, N), f'{kind}-shape',
            f'{np.shape(got)} != {(*lead, N)}')
    for idx in np.ndindex(*lead):
        if kind == 'diagonal':
            ref = od.diag_gaussian_logpdf(y[idx], mean[idx], var[idx])
            ref2 = od.gaussian_logpdf_scipy(y[idx], mean[idx], np.diag(var[idx]))
        else:
            ref = od.spherical_gaussian_logpdf(y[idx], mean[idx], var[idx])
            ref2 = od.gaussian_logpdf_scipy(
                y[idx], mean[idx], float(var[idx]) * np.eye(D))
        tol = 1e-9 * (1 + float(np.max(np.abs(ref))))
        tol += _offset_slack(y[idx], mean[idx], np.diag(1.0 / var[idx]) if kind == 'diagonal'
                             else np.eye(D) / float(var[idx]))
        assert np.allclose(ref, ref2, rtol=0, atol=tol * 10), 'oracle self-check'
        require_close(np.asarray(got)[idx], ref, f'gaussian-{kind}-logpdf',
                      atol=tol, what=f'D={D} idx={idx}')
    ctx.nontrivial(len(lead) >= 1 or D >= 2)
    ctx.label(kind, f'D={D}', f'lead={len(lead)}')


@subcheck(SUBCHECKS, 'complex_gaussian', quick=800, thorough=7000)
def complex_gaussian(d, ctx):
    from pb_bss.distribution import ComplexCircularSymmetricGaussian
    D = d.int(1, 8)
    lead = gen.draw_lead(d)
    N = d.int(1, 6)
    cond = d.log10(0, 8)
    scale = d.log10(-3, 3)
    rng = d.rng()
    cov = gen.hpd(rng, D, cond, scale, lead)
    y = np.empty((*lead, N, D), dtype=np.complex128)
    for idx in np.ndindex(*lead):
        y[idx] = _points(rng, np.zeros(D), np.linalg.cholesky(cov[idx]), N,
                         real=False)
    ctx.describe(D=D, lead=lead, N=N, cond=cond, scale=scale)
    ctx.keep(covariance=cov, y=y)
    model = ctx.lib(ComplexCircularSymmetricGaussian, covariance=cov)
    got = ctx.lib(model.log_pdf, y)
    require(got.shape == (*lead, N), 'shape', f'{got.shape}')
    for idx in np.ndindex(*lead):
        ref = od.complex_gaussian_logpdf(y[idx], cov[idx])
        ref2 = od.complex_gaussian_logpdf_direct(y[idx], cov[idx])
        tol = 1e-9 + 1e-11 * cond * (1 + float(np.max(np.abs(ref))))
        if not np.allclose(ref, ref2, rtol=0, atol=tol):
            ctx.label('references-disagree')
            continue
        require_close(got[idx], ref, 'complex-gaussian-logpdf', atol=tol,
                      what=f'D={D} cond={cond:.1e} idx={idx}')
    ctx.nontrivial(D >= 2 and cond >= 10 and gen.offdiag_energy(cov) >= 0.01)
    ctx.label(f'D={D}', f'lead={len(lead)}')


# ---------------------------------------------------------------- spherical

@subcheck(SUBCHECKS, 'vmf', quick=800, thorough=7000)
def vmf(d, ctx):
    from pb_bss.distribution import VonMisesFisher
    D = d.int(2, 8)
    lead = gen.draw_lead(d)
    N = d.int(1, 6)
    rng = d.rng()
    kappa = 10 ** rng.uniform(-6, math.log10(500), size=lead)
    kappa = np.asarray(kappa)
    if d.bool():
        kappa = np.where(rng.uniform(size=lead) < 0.5, d.choice([1e-6, 500.0]), kappa)
    mean = gen.unit(rng.normal(size=(*lead, D)))
    y = rng.normal(size=(*lead, N, D))
    # some points close to the mode, arbitrary positive length
    close_ = rng.uniform(size=(*lead, N, 1)) < 0.4
    y = np.where(close_, mean[..., None, :] + 0.05 * y, y)
    y = y * 10 ** rng.uniform(-3, 3, size=(*lead, N, 1))
    ctx.describe(D=D, lead=lead, N=N, kappa=kappa)
    ctx.keep(mean=mean, kappa=kappa, y=y)
    model = ctx.lib(VonMisesFisher, mean=mean, concentration=kappa)
    got = ctx.lib(model.log_pdf, y)
    require(got.shape == (*lead, N), 'shape', f'{got.shape}')
    for idx in np.ndindex(*lead):
        k = float(kappa[idx])
        ref = od.vmf_logpdf_scipy(y[idx], mean[idx], k)
        lognorm_q = -od.vmf_log_norm_quadrature(D, k)
        yn = gen.unit(y[idx])
        ref_q = lognorm_q + k * (yn @ mean[idx])
        require_close(ref, ref_q, 'oracle-self-check-vmf', atol=1e-8 * (1 + k))
        require_close(got[idx], ref, 'vmf-logpdf',
                      atol=1e-9 * (1 + k + abs(lognorm_q)),
                      what=f'D={D} kappa={k:.3e} idx={idx}')
    ctx.nontrivial(float(np.max(kappa)) >= 1e-3)
    ctx.label(f'D={D}', f'lead={len(lead)}')


@subcheck(SUBCHECKS, 'watson', quick=800, thorough=7000)
def watson(d, ctx):
    from pb_bss.distribution import ComplexWatson
    D = d.int(2, 6)
    lead = gen.draw_lead(d)
    N = d.int(1, 6)
    rng = d.rng()
    kappa = np.asarray(10 ** rng.uniform(-6, math.log10(500), size=lead))
    if d.bool():
        kappa = np.where(rng.uniform(size=lead) < 0.5,
                         d.choice([1e-6, 500.0]), kappa)
    mode = gen.unit(gen.cnormal(rng, (*lead, D)))
    z = gen.cnormal(rng, (*lead, N, D))
    close_ = rng.uniform(size=(*lead, N, 1)) < 0.4
    z = np.where(close_, mode[..., None, :] + 0.05 * z, z)
    z = gen.unit(z) * np.exp(2j * np.pi * rng.uniform(size=(*lead, N, 1)))
    ctx.describe(D=D, lead=lead, N=N, kappa=kappa)
    ctx.keep(mode=mode, kappa=kappa, z=z)
    model = ctx.lib(ComplexWatson, mode=mode, concentration=kappa)
    got = ctx.lib(model.log_pdf, z)
    require(got.shape == (*lead, N), 'shape', f'{got.shape}')
    for idx in np.ndindex(*lead):
        k = float(kappa[idx])
        ln = od.watson_log_norm(D, k)
        lnq = od.watson_log_norm_quadrature(D, k)
        require(abs(ln - lnq) <= 1e-9 * (1 + abs(ln)), 'oracle-self-check-watson',
                f'D={D} k={k} series {ln} quadrature {lnq}')
        ref = od.watson_logpdf(z[idx], mode[idx], k)
        require_close(got[idx], ref, 'watson-logpdf',
                      atol=1e-9 * (1 + k + abs(ln)),
                      what=f'D={D} kappa={k:.3e} idx={idx}')
    ctx.nontrivial(float(np.max(kappa)) >= 1e-3)
    ctx.label(f'D={D}', f'lead={len(lead)}')


def _bingham_eigenvalues(d, rng, D):
    family = d.choice(['spread', 'spread', 'clustered', 'mixed', 'wide'])
    if family == 'spread':
        gaps = 10 ** rng.uniform(-1, 1.5, size=D - 1)
    elif family == 'wide':
        gaps = 10 ** rng.uniform(0, 2, size=D - 1)
    elif family == 'clustered':
        gaps = 10 ** rng.uniform(-3, -1.5, size=D - 1)
    else:
        gaps = 10 ** rng.uniform(-3, 1.5, size=D - 1)
    gaps = np.maximum(gaps, 1e-3)
    lam = -np.concatenate([[0.0], np.cumsum(gaps)])
    if lam.min() < -500:
        lam = lam * (500 / -lam.min())
        if D > 1 and np.min(np.abs(np.diff(lam))) < 1e-3:
            lam = -np.arange(D) * (500.0 / max(D - 1, 1))
    order = d.choice(['ascending', 'descending', 'shuffled'])
    if order == 'ascending':
        lam = np.sort(lam)
    elif order == 'descending':
        lam = np.sort(lam)[::-1]
    else:
        lam = rng.permutation(lam)
    shift = d.choice([0.0, 0.0, 1.0, -3.0])
    return np.ascontiguousarray(lam + shift), family, order


def _bingham_cancellation(lam):
    """condition number of the divided-difference sum the library evaluates"""
    from decimal import Decimal, getcontext
    getcontext().prec = 120
    L = [Decimal(repr(float(x))) for x in lam]
    m = max(L)
    terms = []
    for j in range(len(L)):
        p = Decimal(1)
        for k in range(len(L)):
            if k != j:
                p *= (L[j] - L[k])
        terms.append((L[j] - m).exp() / p)
    s = sum(terms)
    a = sum(abs(t) for t in terms)
    return float(a / abs(s))


@subcheck(SUBCHECKS, 'bingham', quick=1000, thorough=8000)
def bingham(d, ctx):
    from pb_bss.distribution.complex_bingham import ComplexBingham
    D = d.int(2, 6)
    lead = gen.draw_lead(d, max_axes=1)
    N = d.int(1, 5)
    rng = d.rng()
    lam = np.empty((*lead, D))
    fams = []
    for idx in np.ndindex(*lead):
        lam[idx], fam, order = _bingham_eigenvalues(d, rng, D)
        fams.append(fam)
    V = np.empty((*lead, D, D), dtype=np.complex128)
    for idx in np.ndindex(*lead):
        V[idx] = gen.haar_unitary(rng, D)
    z = gen.unit(gen.cnormal(rng, (*lead, N, D)))
    # some points close to the principal eigenvector
    for idx in np.ndindex(*lead):
        top = V[idx][:, int(np.argmax(lam[idx]))]
        z[idx][0] = gen.unit(top + 0.05 * z[idx][0])
    ctx.describe(D=D, lead=lead, N=N, eigenvalues=lam, families=fams)
    ctx.keep(eigenvectors=V, eigenvalues=lam, z=z)
    model = ctx.lib(ComplexBingham, covariance_eigenvectors=V,
                    covariance_eigenvalues=lam.copy())
    got = ctx.lib(model.log_pdf, z)
    require(np.shape(got) == (*lead, N), 'shape', f'{np.shape(got)}')
    worst = 1.0
    for idx in np.ndindex(*lead):
        ref = od.bingham_logpdf(z[idx], V[idx], lam[idx])
        cnum = _bingham_cancellation(lam[idx])
        worst = max(worst, cnum)
        err = float(np.max(np.abs(np.asarray(got)[idx] - ref)))
        base = 1e-9 * (1 + float(np.max(np.abs(lam[idx]))) + float(np.max(np.abs(ref))))
        if err <= base:
            continue
        bound = base + 1e-13 * cnum
        if err <= bound:
            # float64 cancellation in the divided-difference normaliser
            raise Violation(
                'bingham-normaliser-cancellation',
                f'D={D} eigenvalues={lam[idx].tolist()} |log_pdf - exact|='
                f'{err:.3e} (cancellation factor of the float64 sum '
                f'{cnum:.2e})')
        raise Violation('bingham-logpdf',
                        f'D={D} eigenvalues={lam[idx].tolist()} idx={idx} '
                        f'|diff|={err:.3e} tol={bound:.3e}')
    ctx.nontrivial(True)
    ctx.label(f'D={D}', f'lead={len(lead)}', *set(fams),
              'ill-conditioned-sum' if worst > 1e4 else 'well-conditioned-sum')


@subcheck(SUBCHECKS, 'bingham_norm_quadrature', quick=60, thorough=1500)
def bingham_norm_quadrature(d, ctx):
    """the reference normaliser itself against simplex quadrature, D <= 3,
    and the library normaliser against both."""
    from pb_bss.distribution.complex_bingham import ComplexBingham
    D = d.int(2, 3)
    rng = d.rng()
    lam, fam, order = _bingham_eigenvalues(d, rng, D)
    ctx.describe(D=D, eigenvalues=lam, family=fam)
    ref = od.bingham_log_norm(lam)
    quad = od.bingham_log_norm_quadrature(lam)
    require(abs(ref - quad) <= 1e-8 * (1 + abs(ref)), 'oracle-self-check-bingham',
            f'{lam.tolist()} decimal {ref} quadrature {quad}')
    lib = float(ctx.lib(ComplexBingham(None, lam.copy()).log_norm))
    cnum = _bingham_cancellation(lam)
    tol = 1e-9 * (1 + abs(ref)) + 1e-13 * cnum
    require(abs(lib - quad) <= tol + 1e-8 * (1 + abs(ref)),
            'bingham-integrates-to-one',
            f'{lam.tolist()} library {lib} quadrature {quad}')
    ctx.nontrivial(True)
    ctx.label(f'D={D}', fam)


@subcheck(SUBCHECKS, 'cacg', quick=1000, thorough=8000)
def cacg(d, ctx):
    from pb_bss.distribution import ComplexAngularCentralGaussian
    D = d.int(2, 8)
    lead = gen.draw_lead(d)
    N = d.int(1, 6)
    cond = d.log10(0, 8)
    how = d.choice(['direct', 'from_covariance'])
    rng = d.rng()
    V = np.empty((*lead, D, D), dtype=np.complex128)
    lam = np.empty((*lead, D))
    for idx in np.ndindex(*lead):
        V[idx] = gen.haar_unitary(rng, D)
        lam[idx] = rng.permutation(gen.spectrum(rng, D, cond)) * \
            (1.0 if how == 'from_covariance' else 10 ** rng.uniform(-30, 30))
    B = np.einsum('...wx,...x,...zx->...wz', V, lam, V.conj())
    z = gen.cnormal(rng, (*lead, N, D))
    for idx in np.ndindex(*lead):
        top = V[idx][:, int(np.argmax(lam[idx]))]
        z[idx][0] = top + 0.05 * z[idx][0]
    gains = 10 ** rng.uniform(-3, 3, size=(*lead, N, 1))
    z = z * gains
    ctx.describe(D=D, lead=lead, N=N, cond=cond, how=how)
    ctx.keep(covariance=B, z=z)
    if how == 'direct':
        model = ctx.lib(ComplexAngularCentralGaussian,
                        covariance_eigenvectors=V, covariance_eigenvalues=lam)
        Bref = B
    else:
        norm = d.choice(['eigenvalue', 'trace', False])
        model = ctx.lib(ComplexAngularCentralGaussian.from_covariance,
                        B.copy(), eigenvalue_floor=0., covariance_norm=norm)
        ctx.label(f'norm={norm}')
        # the reference uses the covariance the model reports
        Bref = np.asarray(model.covariance)
        # which must be a positive multiple of the input
        for idx in np.ndindex(*lead):
            c = np.trace(Bref[idx]).real / np.trace(B[idx]).real
            require(c > 0 and np.allclose(
                Bref[idx], c * B[idx], rtol=0,
                atol=1e-9 * cond * float(np.max(np.abs(Bref[idx])))),
                'cacg-from-covariance-not-proportional',
                f'norm={norm} cond={cond:.1e}')
    got = ctx.lib(model.log_pdf, z)
    require(got.shape == (*lead, N), 'shape', f'{got.shape}')
    for idx in np.ndindex(*lead):
        zn = gen.unit(z[idx])
        ref = od.cacg_logpdf(zn, Bref[idx])
        tol = 1e-9 + 1e-11 * cond * (1 + float(np.max(np.abs(ref))))
        require_close(got[idx], ref, 'cacg-logpdf', atol=tol,
                      what=f'D={D} cond={cond:.1e} how={how} idx={idx}')
    ctx.nontrivial(cond >= 10 and gen.offdiag_energy(B) >= 0.01)
    ctx.label(f'D={D}', f'lead={len(lead)}', how)


# --------------------------------------- integrates to one (library pdf, D=2)

@subcheck(SUBCHECKS, 'stored_parameters', quick=1000, thorough=8000)
def stored_parameters(d, ctx):
    """"at the stored parameters": a distribution object that has been
    evaluated and whose parameter fields are then reassigned (or overwritten in
    place) must evaluate like a fresh object with the new parameters; an
    evaluation must not change the stored parameters either.  The fresh
    object's values are judged by the other sub-checks."""
    import dataclasses
    import pb_bss.distribution as dist
    from pb_bss.distribution.complex_bingham import ComplexBingham
    which = d.choice(['gaussian', 'diagonal', 'spherical', 'ccsg', 'vmf', 'watson',
                      'bingham', 'cacg'])
    D = d.int(2, 5)
    N = d.int(1, 6)
    lead = tuple(d.int(1, 3) for _ in range(d.int(0, 1)))
    rng = d.rng()
    how = d.choice(['assign-new-array', 'overwrite-in-place'])

    def params():
        if which == 'gaussian':
            return dict(mean=rng.normal(size=(*lead, D)),
                        covariance=gen.spd(rng, D, 10 ** rng.uniform(0, 3), 10 ** rng.uniform(-2, 2), lead))
        if which == 'diagonal':
            return dict(mean=rng.normal(size=(*lead, D)),
                        covariance=10 ** rng.uniform(-2, 2, size=(*lead, D)))
        if which == 'spherical':
            return dict(mean=rng.normal(size=(*lead, D)),
                        covariance=np.asarray(10 ** rng.uniform(-2, 2, size=lead)))
        if which == 'ccsg':
            return dict(covariance=gen.hpd(rng, D, 10 ** rng.uniform(0, 3), 10 ** rng.uniform(-2, 2), lead))
        if which == 'vmf':
            return dict(mean=gen.unit(rng.normal(size=(*lead, D))),
                        concentration=np.asarray(10 ** rng.uniform(-2, 2.5, size=lead)))
        if which == 'watson':
            return dict(mode=gen.unit(gen.cnormal(rng, (*lead, D))),
                        concentration=np.asarray(10 ** rng.uniform(-2, 2.5, size=lead)))
        if which == 'bingham':
            lam = -np.sort(rng.uniform(0.1, 30, size=(*lead, D)), axis=-1)
            lam = lam - lam.max(axis=-1, keepdims=True)
            V = np.stack([gen.haar_unitary(rng, D) for _ in range(int(np.prod(lead, dtype=int)))]
                         ).reshape(*lead, D, D)
            return dict(covariance_eigenvectors=V, covariance_eigenvalues=lam)
        lam = np.sort(rng.uniform(0.01, 1, size=(*lead, D)), axis=-1)
        lam = lam / lam.max(axis=-1, keepdims=True)
        V = np.stack([gen.haar_unitary(rng, D) for _ in range(int(np.prod(lead, dtype=int)))]
                     ).reshape(*lead, D, D)
        return dict(covariance_eigenvectors=V, covariance_eigenvalues=lam)

    cls = {'gaussian': dist.Gaussian, 'diagonal': dist.DiagonalGaussian,
           'spherical': dist.SphericalGaussian,
           'ccsg': dist.ComplexCircularSymmetricGaussian, 'vmf': dist.VonMisesFisher,
           'watson': dist.ComplexWatson, 'bingham': ComplexBingham,
           'cacg': dist.ComplexAngularCentralGaussian}[which]
    real = which in ('gaussian', 'diagonal', 'spherical', 'vmf')
    y = rng.normal(size=(*lead, N, D)) if real else gen.cnormal(rng, (*lead, N, D))
    if which in ('watson', 'bingham'):
        y = gen.unit(y)
    p1, p2 = params(), params()
    if which in ('gaussian', 'diagonal', 'spherical'):
        # the Gaussian classes store the precision factor and its log
        # determinant as fields of their own, computed from the covariance at
        # construction: the covariance field alone is not "the stored
        # parameters"; only the mean is exchanged here
        p2['covariance'] = p1['covariance']
    ctx.describe(which=which, D=D, N=N, lead=lead, how=how)
    ctx.label(which, how)
    obj = cls(**{k: np.array(v) for k, v in p1.items()})
    first = np.asarray(ctx.lib(obj.log_pdf, y))
    for k, v in p1.items():
        require(np.array_equal(np.asarray(getattr(obj, k)), v),
                'evaluation-changed-the-stored-parameters', f'{which}.{k}', which=which)
    again = np.asarray(ctx.lib(obj.log_pdf, y))
    require(np.array_equal(first, again, equal_nan=True), 'second-evaluation-differs',
            which, which=which)
    for k, v in p2.items():
        cur = getattr(obj, k)
        if how == 'overwrite-in-place' and isinstance(cur, np.ndarray) and cur.ndim >= 1:
            cur[...] = v
        else:
            setattr(obj, k, np.array(v))
    got = np.asarray(ctx.lib(obj.log_pdf, y))
    fresh = np.asarray(ctx.lib(cls(**{k: np.array(v) for k, v in p2.items()}).log_pdf, y))
    if not (np.all(np.isfinite(got)) and np.all(np.isfinite(fresh))):
        raise Borderline('non-finite log_pdf (judged elsewhere)')
    require_close(got, fresh, 'log_pdf-is-not-evaluated-at-the-stored-parameters',
                  rtol=1e-12, atol=1e-12, what=f'{which} ({how})', which=which)
    ctx.nontrivial(True)


# ------------------------------------------- evaluation points in single precision

@subcheck(SUBCHECKS, 'single_precision_points', quick=1000, thorough=8000)
def single_precision_points(d, ctx):
    """"all evaluation points": points stored as float32 / complex64 (what an
    STFT in single precision delivers) with the parameters in double precision
    as usual.  The reference is the density at exactly the stored points
    (converted to double without loss); the tolerance is the first-order effect
    of rounding the point - or its normalised version - to single precision,
    computed per point from the gradient of the log density, so that a
    library that does some of its arithmetic in the precision of the points is
    still judged right."""
    import pb_bss.distribution as dist
    from pb_bss.distribution.complex_bingham import ComplexBingham
    which = d.choice(['gaussian', 'diagonal', 'spherical', 'ccsg', 'vmf', 'watson',
                      'bingham', 'cacg', 'cacg', 'cacg'])
    D = d.int(2, 6)
    N = d.int(1, 6)
    lead = tuple(d.int(1, 3) for _ in range(d.int(0, 1)))
    cond = d.log10(0, 8)
    rng = d.rng()
    n = int(np.prod(lead, dtype=int))
    real = which in ('gaussian', 'diagonal', 'spherical', 'vmf')
    e32 = 16 * float(np.finfo(np.float32).eps)
    y = rng.normal(size=(*lead, N, D)) if real else gen.cnormal(rng, (*lead, N, D))
    ctx.describe(which=which, D=D, N=N, lead=lead, cond=cond)
    ctx.label(which, f'D={D}', f'lead={len(lead)}')

    def single(a):
        return a.astype(np.float32 if real else np.complex64)

    if which in ('gaussian', 'diagonal', 'spherical', 'ccsg'):
        scale = 10 ** rng.uniform(-2, 2)
        if which == 'gaussian':
            cov = gen.spd(rng, D, cond, scale, lead)
        elif which == 'ccsg':
            cov = gen.hpd(rng, D, cond, scale, lead)
        elif which == 'diagonal':
            cov = scale * cond ** rng.uniform(-0.5, 0.5, size=(*lead, D))
        else:
            cov = np.asarray(scale * cond ** rng.uniform(-0.5, 0.5, size=lead))
        mean = None if which == 'ccsg' else rng.normal(size=(*lead, D)) * np.sqrt(scale)
        full = cov if which in ('gaussian', 'ccsg') else (
            cov[..., None] * np.eye(D) if which == 'diagonal'
            else cov[..., None, None] * np.eye(D))
        chol = np.linalg.cholesky(full)
        y = np.einsum('...de,...ne->...nd', chol, y) * rng.choice([0.3, 3.0], size=(*lead, N, 1))
        if mean is not None:
            y = y + mean[..., None, :]
        y = single(y)
        ctx.keep(mean=mean, covariance=cov, y=y)
        cls = {'gaussian': dist.Gaussian, 'diagonal': dist.DiagonalGaussian,
               'spherical': dist.SphericalGaussian,
               'ccsg': dist.ComplexCircularSymmetricGaussian}[which]
        kw = dict(covariance=cov) if which == 'ccsg' else dict(mean=mean, covariance=cov)
        model = ctx.lib(cls, **kw)
        got = np.asarray(ctx.lib(model.log_pdf, y))
        require(got.shape == (*lead, N), 'shape', f'{got.shape}', which=which)
        for idx in np.ndindex(*lead):
            y64 = y[idx].astype(np.float64 if real else np.complex128)
            m = np.zeros(D) if mean is None else mean[idx]
            if which == 'ccsg':
                ref = od.complex_gaussian_logpdf(y64, full[idx])
            else:
                ref = od.gaussian_logpdf(y64, m, full[idx])
            P = np.linalg.inv(full[idx])
            grad = np.linalg.norm((y64 - m) @ P.T, axis=-1) * (2 if which == 'ccsg' else 1)
            ynorm = np.linalg.norm(y64, axis=-1) + np.linalg.norm(m)
            pn = float(np.linalg.norm(P, 2))
            tol = (1e-9 + 1e-11 * cond * (1 + np.abs(ref))
                   + e32 * ynorm * grad + (e32 * ynorm) ** 2 * pn + e32 * np.abs(ref) * 0.25)
            bad = np.abs(got[idx] - ref) > tol
            require(not bad.any(), 'single-precision-points-logpdf',
                    f'{which} D={D} cond={cond:.1e} idx={idx}: |diff| '
                    f'{np.abs(got[idx] - ref)[bad].max() if bad.any() else 0:.3e} '
                    f'tol {tol[bad].max() if bad.any() else 0:.3e}', which=which)
        ctx.nontrivial(cond >= 10)
        return

    if which in ('vmf', 'watson'):
        kappa = np.asarray(10 ** rng.uniform(-6, math.log10(500), size=lead))
        mu = gen.unit(rng.normal(size=(*lead, D)) if real else gen.cnormal(rng, (*lead, D)))
        close_ = rng.uniform(size=(*lead, N, 1)) < 0.4
        y = np.where(close_, mu[..., None, :] + 0.05 * y, y)
        if which == 'vmf':
            y = y * 10 ** rng.uniform(-3, 3, size=(*lead, N, 1))
        else:
            y = gen.unit(y)
        y = single(y)
        ctx.keep(mean=mu, kappa=kappa, y=y)
        if which == 'vmf':
            model = ctx.lib(dist.VonMisesFisher, mean=mu, concentration=kappa)
        else:
            model = ctx.lib(dist.ComplexWatson, mode=mu, concentration=kappa)
        got = np.asarray(ctx.lib(model.log_pdf, y))
        require(got.shape == (*lead, N), 'shape', f'{got.shape}', which=which)
        for idx in np.ndindex(*lead):
            k = float(kappa[idx])
            y64 = y[idx].astype(np.float64 if real else np.complex128)
            if which == 'vmf':
                ref = od.vmf_logpdf_scipy(y64, mu[idx], k)
                ln = od.vmf_log_norm_quadrature(D, k)
            else:
                # the stored points are unit vectors up to single precision
                ref = od.watson_logpdf(gen.unit(y64), mu[idx], k)
                ln = od.watson_log_norm(D, k)
            tol = 1e-9 * (1 + k + abs(ln)) + 4 * e32 * k + 0.25 * e32 * np.abs(ref)
            require_close(got[idx], ref, 'single-precision-points-logpdf', atol=float(np.max(tol)),
                          what=f'{which} D={D} kappa={k:.3e} idx={idx}', which=which)
        ctx.nontrivial(float(np.max(kappa)) >= 1e-3)
        return

    V = np.stack([gen.haar_unitary(rng, D) for _ in range(n)]).reshape(*lead, D, D)
    if which == 'bingham':
        lam = np.empty((*lead, D))
        for idx in np.ndindex(*lead):
            lam[idx] = _bingham_eigenvalues(d, rng, D)[0]
        y = single(gen.unit(y))
        ctx.keep(eigenvectors=V, eigenvalues=lam, y=y)
        model = ctx.lib(ComplexBingham, covariance_eigenvectors=V,
                        covariance_eigenvalues=lam.copy())
        got = np.asarray(ctx.lib(model.log_pdf, y))
        require(got.shape == (*lead, N), 'shape', f'{got.shape}', which=which)
        for idx in np.ndindex(*lead):
            y64 = y[idx].astype(np.complex128)
            ref = od.bingham_logpdf(y64, V[idx], lam[idx])
            cnum = _bingham_cancellation(lam[idx])
            lmax = float(np.max(np.abs(lam[idx])))
            tol = (1e-9 * (1 + lmax + float(np.max(np.abs(ref)))) + 1e-13 * cnum
                   + 4 * e32 * lmax + 0.25 * e32 * float(np.max(np.abs(ref))))
            if cnum > 1e4:
                ctx.label('ill-conditioned-sum')
                continue        # the normaliser's own cancellation: judged in `bingham`
            require_close(got[idx], ref, 'single-precision-points-logpdf', atol=tol,
                          what=f'bingham D={D} eigenvalues={lam[idx].tolist()}', which=which)
        ctx.nontrivial(True)
        return

    # cACG: the condition number is drawn towards the upper end of the domain
    if d.aux(71).integers(0, 2) == 0:
        cond = 10 ** d.aux(72).uniform(6, 8)
    lam = np.empty((*lead, D))
    for idx in np.ndindex(*lead):
        lam[idx] = rng.permutation(gen.spectrum(rng, D, cond)) * 10 ** rng.uniform(-3, 3)
    B = np.einsum('...wx,...x,...zx->...wz', V, lam, V.conj())
    for idx in np.ndindex(*lead):
        top = V[idx][:, int(np.argmax(lam[idx]))]
        y[idx][0] = top + 0.05 * y[idx][0]
    y = single(y * 10 ** rng.uniform(-3, 3, size=(*lead, N, 1)))
    ctx.describe(cond=cond)
    ctx.keep(covariance=B, y=y)
    model = ctx.lib(dist.ComplexAngularCentralGaussian,
                    covariance_eigenvectors=V, covariance_eigenvalues=lam)
    got = np.asarray(ctx.lib(model.log_pdf, y))
    require(got.shape == (*lead, N), 'shape', f'{got.shape}', which=which)
    for idx in np.ndindex(*lead):
        zn = gen.unit(y[idx].astype(np.complex128))
        c = zn @ V[idx].conj()              # coordinates in the eigenbasis
        q = np.sum(np.abs(c) ** 2 / lam[idx], axis=-1)
        ref = -D * np.log(q) - float(np.sum(np.log(lam[idx])))
        ref2 = od.cacg_logpdf(zn, B[idx])
        lmin = float(np.min(lam[idx]))
        # |dq| <= 2 sqrt(q) e / sqrt(lmin) + e^2 / lmin for a perturbation of norm e
        rel = 2 * e32 / np.sqrt(q * lmin) + e32 ** 2 / (q * lmin)
        tol = 1e-9 + 1e-11 * cond * (1 + np.abs(ref)) + D * rel * 2 + 0.25 * e32 * np.abs(ref)
        if not np.all(np.abs(ref - ref2) <= tol):
            ctx.label('references-disagree')
            continue
        bad = np.abs(got[idx] - ref) > tol
        require(not bad.any(), 'single-precision-points-logpdf',
                f'cacg D={D} cond={cond:.1e} idx={idx}: |diff| '
                f'{np.abs(got[idx] - ref)[bad].max() if bad.any() else 0:.3e} '
                f'tol {tol[bad].max() if bad.any() else 0:.3e}', which=which)
    ctx.nontrivial(cond >= 10)
    ctx.label('cond>=1e7' if cond >= 1e7 else 'cond<1e7')


def _sphere_grid(ns=48, nphi=48):
    s, ws = np.polynomial.legendre.leggauss(ns)
    s = (s + 1) / 2
    ws = ws / 2
    phi = 2 * np.pi * (np.arange(nphi) + 0.5) / nphi
    S, P = np.meshgrid(s, phi, indexing='ij')
    z = np.stack([np.sqrt(S), np.sqrt(1 - S) * np.exp(1j * P)], axis=-1)
    w = (ws[:, None] * np.ones(nphi)[None, :]) / nphi
    return z.reshape(-1, 2), w.reshape(-1)


@subcheck(SUBCHECKS, 'integrates_to_one_D2', quick=300, thorough=3000)
def integrates_to_one(d, ctx):
    """E_uniform[exp(log_pdf)] * area == 1 (== area for cACG), with the
    library's own log_pdf on a Gauss-Legendre x trapezoid grid of the complex
    unit sphere in C^2 (densities are invariant to a global phase)."""
    from pb_bss.distribution import (ComplexAngularCentralGaussian,
                                     ComplexWatson)
    from pb_bss.distribution.complex_bingham import ComplexBingham
    family = d.choice(['cacg', 'watson', 'bingham'])
    rng = d.rng()
    area = od.sphere_area_complex(2)
    if family == 'cacg':
        cond = d.log10(0, 1.5)
        V = gen.haar_unitary(rng, 2)
        lam = gen.spectrum(rng, 2, cond) * 10 ** rng.uniform(-1, 1)
        model = ComplexAngularCentralGaussian(
            covariance_eigenvectors=V, covariance_eigenvalues=lam)
        z, w = _sphere_grid(96, 96)
        expected = area
        ctx.describe(family=family, cond=cond)
    elif family == 'watson':
        kappa = d.log10(-6, 1.3)
        model = ComplexWatson(mode=gen.unit(gen.cnormal(rng, (2,))),
                              concentration=np.array(kappa))
        z, w = _sphere_grid(96, 96)
        expected = 1.0
        ctx.describe(family=family, kappa=kappa)
    else:
        lam = np.array([0.0, -d.log10(-3, 1.3)])
        if d.bool():
            lam = lam[::-1].copy()
        model = ComplexBingham(gen.haar_unitary(rng, 2), lam)
        z, w = _sphere_grid(96, 96)
        expected = 1.0
        ctx.describe(family=family, eigenvalues=lam)
    lp = ctx.lib(model.log_pdf, z)
    integral = float(np.sum(w * np.exp(lp)) * area)
    require(abs(integral - expected) <= 1e-6 * expected,
            f'{family}-integrates-to-one',
            f'integral {integral} expected {expected}', family=family)
    ctx.nontrivial(True)
    ctx.label(family)
