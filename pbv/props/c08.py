"""C08 - trainers return the documented weighted estimators and EM alternates
them.

Oracles: naive loop estimators (pbv.oracles.estimators), an independent
E-step (Bayes rule with the reference densities) and the repetition law for
integer saliencies.
"""
import itertools

import math

import numpy as np

from pbv import gen, mm
from pbv.core import Borderline, Violation, require, require_close, subcheck
from pbv.oracles import densities as od
from pbv.oracles import estimators as oe

SUBCHECKS = []
RULE = (
    'Single trainers: weighted data (N > D, 0..2 leading axes, saliency none '
    '/ positive / with zeros), every covariance type / norm, hermitize, '
    'concentration bounds, 1..8 Tyler iterations and the 500-iteration fixed '
    'point. Mixture fits: general-position data, every option and tying; the '
    'iteration-trace hook exposes (affiliation, quadratic form, model) of '
    'every iteration, each M-step is compared with the loop estimators '
    'evaluated on that affiliation and each E-step with the independent '
    'Bayes posterior of the previous model (clipped where configured; one '
    'common per-bin permutation when an inline aligner is used); end-to-end '
    'composition when the hook does not fire; the built-in spatial/spectral '
    'alignment of the integration models inside fit (E-step = posterior of a '
    'class permutation of the spatial stream that is no worse than the '
    'identity). Repetition law: integer '
    'saliency 1..4 versus repeated observations for all seven trainers. '
    'Non-trivial: saliency not constant or K >= 2 with >= 2 iterations. '
    'Distinct = distinct recorded choice sequence.'
)


# ---------------------------------------------------------------------------
# single-distribution trainers
# ---------------------------------------------------------------------------

def _weights(d, rng, lead, N):
    kind = d.choice(['none', 'positive', 'zeros', 'integer'])
    if kind == 'none':
        return None, kind
    if kind == 'integer':
        w = rng.integers(1, 5, size=(*lead, N))
        # counts as float, as integers, or a boolean selection
        sk = int(d.aux(81).integers(0, 4))
        if sk == 1:
            return w.astype(np.int64), 'integer-int64'
        if sk == 2:
            b = w >= 2
            b[..., :max(2, N // 2)] = True
            return b, 'boolean'
        return w.astype(float), kind
    s = rng.uniform(0.1, 3.0, size=(*lead, N))
    if kind == 'zeros':
        idx = d.subset(N, 1, max(1, N // 3))
        s[..., idx] = 0
    if d.epoch >= 2 and d.aux(84).integers(0, 4) == 0:
        # the unit of the saliency is arbitrary
        s = s * 10.0 ** d.aux(85).uniform(-14, 4)
        kind += '-scaled'
    return s, kind


@subcheck(SUBCHECKS, 'single_estimators', quick=700, thorough=12000)
def single_estimators(d, ctx):
    import pb_bss.distribution as dist
    which = d.choice(['gaussian', 'ccsg', 'watson', 'vmf', 'cacg',
                      'cacg-fixed-point'])
    lead = gen.draw_lead(d)
    D = d.int(2, 6)
    N = d.int(2 * D + 2, 2 * D + 25)
    if which == 'cacg-fixed-point':
        N = d.int(3 * D + 2, 3 * D + 25)
    rng = d.rng()
    complex_ = which in ('ccsg', 'watson', 'cacg', 'cacg-fixed-point')
    if d.epoch >= 2 and which in ('watson', 'vmf') and d.aux(92).integers(0, 2) == 0:
        # one cluster of any concentration (kappa about 3..300 instead of the
        # few values two overlapping clusters give), dimension up to 8
        aux = d.aux(93)
        D = int(aux.integers(2, 9))
        N = int(aux.integers(2 * D + 2, 2 * D + 40))
        sigma = float(10.0 ** aux.uniform(-1.25, -0.25))
        draw = gen.cnormal if complex_ else (lambda r, shape: r.normal(size=shape))
        proto = gen.unit(draw(aux, (*lead, 1, D)))
        amp = draw(aux, (*lead, N, 1)) if complex_ else 1.0 + 0.2 * aux.normal(size=(*lead, N, 1))
        y = proto * amp + sigma * draw(aux, (*lead, N, D))
        ctx.label('single-cluster')
    else:
        y, _ = mm.cluster_data(rng, lead, 2, N, D, complex_, d.choice([0.1, 0.5, 1.0]))
    offset = 1.0
    if not complex_:
        offset = d.choice([1.0, 1.0, 1e2, 1e4, 1e6])
        y = y + offset * rng.normal(size=(*lead, 1, D))
    if d.epoch >= 2 and which == 'cacg' and d.aux(90).integers(0, 3) == 0:
        # strongly directional data: one direction 20..80 dB above the rest, so
        # that the smallest eigenvalue of the estimate lies between the
        # documented floor (1e-10) and the larger floors drawn below
        aux = d.aux(91)
        sigma = 10.0 ** aux.uniform(-4, -1, size=(*lead, 1, 1))
        proto = gen.unit(gen.cnormal(aux, (*lead, 1, D)))
        y = proto * gen.cnormal(aux, (*lead, N, 1)) + sigma * gen.cnormal(aux, (*lead, N, D))
        ctx.label('directional-data')
    sal, skind = (None, 'none') if which.startswith('cacg') else \
        _weights(d, rng, lead, N)
    ctx.describe(trainer=which, lead=lead, D=D, N=N, saliency=skind)
    ctx.label(which, f'saliency={skind}', f'lead={len(lead)}')
    w_all = np.ones((*lead, N)) if sal is None else sal

    if which == 'gaussian':
        ct = d.choice(['full', 'diagonal', 'spherical'])
        m = ctx.lib(dist.GaussianTrainer().fit, y, saliency=sal, covariance_type=ct)
        for idx in np.ndindex(*lead):
            mean, cov = oe.gaussian_ml(y[idx], w_all[idx], ct)
            require_close(np.asarray(m.mean)[idx], mean, 'gaussian-mean', rtol=1e-10, atol=1e-12)
            # centring loses eps * |mean| / std relative accuracy, not more
            require_close(np.asarray(m.covariance)[idx], cov, f'gaussian-covariance-{ct}',
                          rtol=1e-9 + 1e-13 * offset, atol=1e-12,
                          what=f'offset {offset:g}')
    elif which == 'ccsg':
        m = ctx.lib(dist.ComplexCircularSymmetricGaussianTrainer().fit, y, saliency=sal)
        for idx in np.ndindex(*lead):
            require_close(np.asarray(m.covariance)[idx],
                          oe.weighted_scatter(y[idx], w_all[idx]),
                          'ccsg-covariance', rtol=1e-10, atol=1e-12)
    elif which == 'watson':
        mc = d.choice([500, 100, 20, 5, 1000])
        # the documented default (500) is also exercised by leaving it out
        tkw = {} if mc == 500 and d.aux(87).integers(0, 2) == 0 else dict(max_concentration=mc)
        ctx.label('defaults-omitted' if not tkw else 'explicit-options')
        m = ctx.lib(dist.ComplexWatsonTrainer(**tkw).fit, y, saliency=sal)
        for idx in np.ndindex(*lead):
            z = oe.unit(y[idx])
            S = oe.weighted_scatter(z, w_all[idx])
            vec, lam_max, lam = oe.top_eigenpair(S)
            kappa = float(np.asarray(m.concentration)[idx])
            _check_watson_concentration(D, kappa, lam_max, mc, 'watson')
            if lam[-1] - lam[-2] > 1e-6:
                mode = np.asarray(m.mode)[idx]
                require_close(np.outer(mode, mode.conj()), np.outer(vec, vec.conj()),
                              'watson-mode-is-principal-eigenvector', atol=1e-8)
    elif which == 'vmf':
        lo, hi = d.choice([(1e-10, 500), (1e-3, 100), (1.0, 20), (0.5, 3.0)])
        fkw = dict(min_concentration=lo, max_concentration=hi)
        if (lo, hi) == (1e-10, 500) and d.aux(88).integers(0, 2) == 0:
            fkw = {}            # the documented defaults, left out
        ctx.label('defaults-omitted' if not fkw else 'explicit-options')
        m = ctx.lib(dist.VonMisesFisherTrainer().fit, y, saliency=sal, **fkw)
        for idx in np.ndindex(*lead):
            mean, kappa, r_bar = oe.vmf_ml(y[idx], w_all[idx], lo, hi)
            require_close(np.asarray(m.mean)[idx], mean, 'vmf-mean', atol=1e-10)
            require_close(np.asarray(m.concentration)[idx], kappa,
                          'vmf-concentration-banerjee', rtol=1e-9, atol=1e-12)
    elif which == 'cacg':
        norm = d.choice(['eigenvalue', 'trace', False])
        floor = d.choice([1e-10, 1e-3, 3e-2])
        herm = d.bool()
        n = d.int(1, 8)
        fkw = dict(covariance_norm=norm, eigenvalue_floor=floor, hermitize=herm,
                   iterations=n)
        aux = d.aux(89)
        if aux.integers(0, 3) == 0:
            # documented defaults (hermitize=True, covariance_norm='eigenvalue',
            # eigenvalue_floor=1e-10, iterations=10): each option that is left
            # out takes the documented value in the reference
            documented = dict(covariance_norm='eigenvalue', eigenvalue_floor=1e-10,
                              hermitize=True, iterations=10)
            for k in sorted(documented):
                if aux.integers(0, 2) == 0:
                    fkw.pop(k)
            norm = fkw.get('covariance_norm', documented['covariance_norm'])
            floor = fkw.get('eigenvalue_floor', documented['eigenvalue_floor'])
            herm = fkw.get('hermitize', documented['hermitize'])
            n = fkw.get('iterations', documented['iterations'])
            ctx.label('defaults-omitted')
        m = ctx.lib(dist.ComplexAngularCentralGaussianTrainer().fit, y, **fkw)
        ctx.label(f'norm={norm}', f'floor={floor}')
        for idx in np.ndindex(*lead):
            z = oe.unit(y[idx])
            q = np.ones(N)
            for _ in range(n):
                B = oe.cacg_normalise(oe.tyler_step(z, np.ones(N), q, D), norm, floor, herm)
                q = np.maximum(oe.quadratic_form(z, B), np.finfo(float).tiny)
            lamB = np.linalg.eigvalsh(B)
            condB = float(lamB[-1] / max(lamB[0], 1e-300))
            # every iteration solves with B: rounding is amplified by cond(B)
            require_close(np.asarray(m.covariance)[idx], B, 'cacg-tyler-iteration',
                          rtol=1e-7 + 1e-14 * condB * n, atol=1e-10,
                          what=f'{n} iterations norm={norm} floor={floor} cond={condB:.1e}')
    else:
        # repeated application converges to B ~ (D/N) sum z z^H / (z^H B^-1 z)
        m = ctx.lib(dist.ComplexAngularCentralGaussianTrainer().fit, y, iterations=500)
        m_prev = ctx.lib(dist.ComplexAngularCentralGaussianTrainer().fit, y, iterations=450)
        if np.max(np.abs(np.asarray(m.covariance) - np.asarray(m_prev.covariance))) > 1e-9:
            raise Borderline('Tyler iteration still moving after 450 steps')
        for idx in np.ndindex(*lead):
            z = oe.unit(y[idx])
            B = np.asarray(m.covariance)[idx]
            lam = np.linalg.eigvalsh(B)
            if lam.min() < 1e-6 * lam.max():
                raise Borderline('eigenvalue floor region')
            q = oe.quadratic_form(z, B)
            nxt = oe.tyler_step(z, np.ones(N), q, D)
            nxt = nxt / np.linalg.eigvalsh(nxt).max()
            require_close(B, nxt, 'cacg-fixed-point', atol=1e-6)
    ctx.nontrivial(skind not in ('none',) or which.startswith('cacg'))


def _check_watson_concentration(D, kappa, lam_max, mc, clause, markers=1000):
    # the trainer inverts the ratio by quadratic interpolation over
    # ``spline_markers`` log-spaced knots; measured worst residual over D 2..8:
    # 1.8e-6 (300 knots), 4.5e-8 (1000), 5.6e-9 (2000) ~ knots**-3.  Ten times
    # that is granted.
    tol = 5e-7 * (1000.0 / markers) ** 3
    lo_ratio = od.watson_mean_t(D, 1e-3)
    hi_ratio = od.watson_mean_t(D, float(mc))
    if lam_max >= hi_ratio + 1e-9:
        require(abs(kappa - mc) <= 1e-9 * mc, f'{clause}-concentration-clipped-high',
                f'lambda_max={lam_max} kappa={kappa} max={mc}')
    elif lam_max <= lo_ratio - 1e-9:
        require(0 <= kappa <= 1e-3 + 1e-12, f'{clause}-concentration-clipped-low',
                f'lambda_max={lam_max} kappa={kappa}')
    elif lo_ratio + 1e-7 < lam_max < hi_ratio - 1e-7:
        res = od.watson_mean_t(D, kappa) - lam_max
        require(abs(res) <= tol, f'{clause}-concentration-solves-ratio-equation',
                f'D={D} kappa={kappa} E[t]-lambda_max={res:.3e}')


@subcheck(SUBCHECKS, 'watson_ratio_inversion', quick=600, thorough=10000)
def watson_ratio_inversion(d, ctx):
    """the Watson concentration over its whole range: D orthonormal frames with
    saliencies (l, (1-l)/(D-1), ...) have exactly the weighted scatter
    U diag(l, ...) U^H, so the trainer has to return the kappa whose eigenvalue
    ratio is l - for l = ratio(kappa*), kappa* log-uniform over
    [1e-2, 2 max_concentration] (both clipping ends included), D 2..8, every
    spline resolution.  Also through the mixture trainer (one class)."""
    import pb_bss.distribution as dist
    D = d.int(2, 8)
    mc = d.choice([500, 500, 100, 20, 1000])
    markers = d.choice([1000, 1000, 300, 2000])
    kstar = 10.0 ** d.float(-2, math.log10(2 * mc))
    lam_max = float(od.watson_mean_t(D, kstar))
    rng = d.rng()
    U = gen.haar_unitary(rng, D)
    y = U.T.copy() * (10.0 ** rng.uniform(-3, 3, size=(D, 1)) *
                      np.exp(2j * np.pi * rng.uniform(size=(D, 1))))
    sal = np.full(D, (1 - lam_max) / (D - 1))
    sal[0] = lam_max
    sal = sal * 10.0 ** rng.uniform(-3, 3)
    kw = {}
    if mc != 500 or d.bool():
        kw['max_concentration'] = mc
    if markers != 1000 or d.bool():
        kw['spline_markers'] = markers
    how = d.choice(['trainer', 'trainer', 'mixture'])
    ctx.describe(D=D, max_concentration=mc, spline_markers=markers, kappa_star=kstar,
                 lambda_max=lam_max, how=how)
    ctx.label(f'D={D}', how, 'kappa*>max' if kstar > mc else
              ('kappa*<1' if kstar < 1 else ('kappa*<30' if kstar < 30 else 'kappa*>=30')))
    if how == 'trainer':
        m = ctx.lib(dist.ComplexWatsonTrainer(**kw).fit, y, saliency=sal)
        kappa = float(np.asarray(m.concentration))
        mode = np.asarray(m.mode)
    else:
        init = np.ones((1, D))
        m = ctx.lib(dist.CWMMTrainer(**kw).fit, y, initialization=init, iterations=1,
                    saliency=sal)
        kappa = float(np.asarray(m.complex_watson.concentration).reshape(-1)[0])
        mode = np.asarray(m.complex_watson.mode).reshape(-1, D)[0]
    _check_watson_concentration(D, kappa, lam_max, mc, 'watson-grid', markers)
    if lam_max - (1 - lam_max) / (D - 1) > 1e-6:
        top = gen.unit(y[0])
        require_close(np.outer(mode, mode.conj()), np.outer(top, top.conj()),
                      'watson-mode-is-principal-eigenvector', atol=1e-8)
    ctx.nontrivial(True)


@subcheck(SUBCHECKS, 'bingham_estimator', quick=60, thorough=1000)
def bingham_estimator(d, ctx):
    from pb_bss.distribution.complex_bingham import ComplexBinghamTrainer
    D = d.int(2, 4)
    N = d.int(3 * D, 3 * D + 20)
    rng = d.rng()
    y, _ = mm.cluster_data(rng, (), 2, N, D, True, d.choice([0.3, 1.0]))
    sal, skind = _weights(d, rng, (), N)
    mc = d.choice([np.inf, 500.0])
    m = ctx.lib(ComplexBinghamTrainer(max_concentration=mc).fit, y, saliency=sal,
                allow_if=mm.explicit_refusal)
    w = np.ones(N) if sal is None else sal
    z = oe.unit(y)
    S = oe.weighted_scatter(z, w)
    S = (S + S.conj().T) / 2
    ev = np.linalg.eigvalsh(S)
    V = np.asarray(m.covariance_eigenvectors)
    lam = np.asarray(m.covariance_eigenvalues, dtype=float)
    ctx.describe(D=D, N=N, saliency=skind, scatter_eigenvalues=ev, fitted=lam)
    res = np.linalg.norm(S @ V - V * ev) / max(ev.max(), 1e-300)
    require(res <= 1e-8, 'bingham-eigenvectors-are-scatter-eigenvectors', f'{res:.3e}')
    require(abs(lam.max()) <= 1e-6, 'bingham-largest-eigenvalue-zero', f'{lam}')
    gaps = np.diff(np.sort(lam))
    if np.min(gaps) < 1e-3 or np.min(np.diff(ev)) < 1e-4 or lam.min() < -400:
        raise Borderline('bound or duplicate-eigenvalue guard active')
    mom = oe.bingham_moments(lam)
    require_close(mom, ev, 'bingham-eigenvalues-solve-moment-equation', atol=2e-3,
                  what=f'lambda={lam} E|z_j|^2={mom} scatter={ev}')
    ctx.nontrivial(True)
    ctx.label(f'D={D}', f'saliency={skind}')


# ---------------------------------------------------------------------------
# mixture weights
# ---------------------------------------------------------------------------

@subcheck(SUBCHECKS, 'mixture_weight_update', quick=500, thorough=8000)
def mixture_weight_update(d, ctx):
    from pb_bss.distribution.mixture_model_utils import estimate_mixture_weight
    lead = gen.draw_lead(d)
    K, N = d.int(1, 6), d.int(1, 12)
    rng = d.rng()
    aff = rng.dirichlet(np.ones(K), size=(*lead, N))
    aff = np.moveaxis(aff, -1, -2)
    if d.bool():
        aff = np.clip(aff, 1e-3, 1 - 1e-3)
    sal, skind = _weights(d, rng, lead, N)
    nd = aff.ndim
    wca = d.choice(mm.weight_axis_options('cacgmm', len(lead)))
    # more groupings for two and three leading axes, and the same axes written
    # as non-negative indices / list / tuple (auxiliary stream)
    aux = d.aux(82)
    if len(lead) >= 2 and aux.integers(0, 2):
        pool = [(-4,), (-4, -3), (-4, -1), (-4, -3, -1), (-3, -1), -4]
        if len(lead) >= 3:
            pool += [(-5,), (-5, -3), (-5, -4, -3, -1)]
        wca = pool[int(aux.integers(0, len(pool)))]
    if aux.integers(0, 2) == 0:
        if isinstance(wca, int):
            wca = wca % nd
        else:
            conv = [a % nd if aux.integers(0, 2) else a for a in wca]
            wca = tuple(conv) if aux.integers(0, 2) else list(conv)
    got = ctx.lib(estimate_mixture_weight, aff, sal, wca)
    ctx.describe(lead=lead, K=K, N=N, saliency=skind, weight_constant_axis=wca)
    ctx.label(f'wca={wca}', f'saliency={skind}')
    axes = [wca % nd] if isinstance(wca, int) else sorted(a % nd for a in wca)
    if axes == [nd - 2]:
        require(np.shape(got) == (K, 1) and np.allclose(got, 1 / K),
                'weight-uniform-when-tied-over-classes', f'{got}')
    else:
        ref = oe.mixture_weight(aff, sal, axes)
        require(np.shape(got) == ref.shape, 'weight-shape', f'{np.shape(got)} vs {ref.shape}')
        require_close(got, ref, 'weight-is-weighted-mean-affiliation', rtol=1e-10, atol=1e-12)
    ctx.nontrivial(K >= 2 and (skind != 'none' or len(axes) > 1 or len(lead) > 0))


# ---------------------------------------------------------------------------
# EM = alternation of the oracle E- and M-steps
# ---------------------------------------------------------------------------

def mstep_oracle(case, aff, q):
    """expected parameters (same keys as mm.params) after one M-step on the
    affiliation ``aff`` (and quadratic form ``q`` for the cACG models)."""
    kind = case.kind
    lead, K, N, D = case.lead, case.K, case.N, case.D
    o = case.opts
    aff = np.broadcast_to(np.asarray(aff, dtype=np.float64), case.aff_shape)
    sal = o.get('saliency')
    w_obs = aff if sal is None else aff * sal[..., None, :]
    out = {}
    wca = o.get('weight_constant_axis', (-1,))
    nd = aff.ndim
    if kind in mm.INTEGRATION:
        axes = sorted(a % 3 for a in wca)
        if 1 in axes:
            out['weight'] = np.asarray(1.0 / K)
        else:
            s = w_obs.sum(axis=tuple(axes), keepdims=True)
            s = s / s.sum(axis=1, keepdims=True)
            out['weight'] = np.squeeze(s, axis=tuple(axes))
    else:
        axes = [wca % nd] if isinstance(wca, int) else sorted(a % nd for a in wca)
        if axes == [nd - 2]:
            out['weight'] = np.full((K, 1), 1.0 / K)
        else:
            use_sal = sal if (kind == 'cacgmm') else \
                (sal if sal is not None else np.ones((*lead, N)))
            out['weight'] = oe.mixture_weight(aff, use_sal, axes)

    z = oe.unit(np.asarray(case.y, dtype=np.complex128)) if kind not in ('gmm', 'vmfmm') else None

    def cacg_cov():
        norm = o.get('covariance_norm', 'eigenvalue')
        floor = o.get('eigenvalue_floor', 1e-10)
        herm = o.get('hermitize', True)
        qq = np.broadcast_to(np.asarray(q, dtype=np.float64), case.aff_shape)
        cov = np.empty((*lead, K, D, D), dtype=np.complex128)
        for idx in np.ndindex(*lead):
            for k in range(K):
                qk = np.maximum(qq[idx][k], 10 * np.finfo(float).tiny)
                B = oe.tyler_step(z[idx], w_obs[idx][k], qk, D)
                cov[idx][k] = oe.cacg_normalise(B, norm, floor, herm)
        return cov

    if kind == 'cacgmm':
        out['cacg_covariance'] = cacg_cov()
    elif kind == 'cwmm':
        proj = np.empty((*lead, K, D, D), dtype=np.complex128)
        lam_max = np.empty((*lead, K))
        gap = np.empty((*lead, K))
        for idx in np.ndindex(*lead):
            for k in range(K):
                S = oe.weighted_scatter(z[idx], w_obs[idx][k])
                v, lm, lam = oe.top_eigenpair(S)
                proj[idx][k] = np.outer(v, v.conj())
                lam_max[idx][k] = lm
                gap[idx][k] = lam[-1] - lam[-2]
        out['watson_projector'] = proj
        out['_watson_lam_max'] = lam_max
        out['_watson_gap'] = gap
    elif kind == 'cbmm':
        scat = np.empty((*lead, K, D, D), dtype=np.complex128)
        for idx in np.ndindex(*lead):
            for k in range(K):
                S = oe.weighted_scatter(z[idx], w_obs[idx][k])
                scat[idx][k] = (S + S.conj().T) / 2
        out['_bingham_scatter'] = scat
    elif kind == 'gmm':
        ct = o.get('covariance_type', 'full')
        mean = np.empty((*lead, K, D))
        cov = np.empty({'full': (*lead, K, D, D), 'diagonal': (*lead, K, D),
                        'spherical': (*lead, K)}[ct])
        for idx in np.ndindex(*lead):
            for k in range(K):
                mu, c = oe.gaussian_ml(case.y[idx], w_obs[idx][k], ct)
                mean[idx][k] = mu
                cov[idx][k] = c
        out['mean'] = mean
        out['covariance'] = cov if o.get('fixed_covariance') is None else \
            np.asarray(o['fixed_covariance'])
    elif kind == 'vmfmm':
        lo = o.get('min_concentration', 1e-10)
        hi = o.get('max_concentration', 500)
        mean = np.empty((*lead, K, D))
        conc = np.empty((*lead, K))
        for idx in np.ndindex(*lead):
            for k in range(K):
                mu, kap, _ = oe.vmf_ml(case.y[idx], w_obs[idx][k], lo, hi)
                mean[idx][k] = mu
                conc[idx][k] = kap
        out['vmf_mean'] = mean
        out['vmf_concentration'] = conc
    elif kind in mm.INTEGRATION:
        out['cacg_covariance'] = cacg_cov()
        F = lead[0]
        E = case.emb.shape[-1]
        e = case.emb.reshape(F * N, E)
        wk = np.transpose(w_obs, (1, 0, 2)).reshape(K, F * N)
        if kind == 'gcacgmm':
            ct = o.get('covariance_type', 'spherical')
            mean = np.empty((K, E))
            cov = np.empty({'full': (K, E, E), 'diagonal': (K, E), 'spherical': (K,)}[ct])
            for k in range(K):
                mu, c = oe.gaussian_ml(e, wk[k], ct)
                mean[k] = mu
                cov[k] = c
            out['mean'] = mean
            out['covariance'] = cov if o.get('fixed_covariance') is None else \
                np.asarray(o['fixed_covariance'])
        else:
            lo = o.get('min_concentration', 1e-10)
            hi = o.get('max_concentration', 500)
            mean = np.empty((K, E))
            conc = np.empty((K,))
            for k in range(K):
                mu, kap, _ = oe.vmf_ml(e, wk[k], lo, hi)
                mean[k] = mu
                conc[k] = kap
            out['vmf_mean'] = mean
            out['vmf_concentration'] = conc
    return out


def compare_mstep(case, model, expected, it):
    got = mm.params(model, case)
    kind = case.kind
    exp = dict(expected)
    lam_max = exp.pop('_watson_lam_max', None)
    gap = exp.pop('_watson_gap', None)
    scat = exp.pop('_bingham_scatter', None)
    if kind == 'cbmm':
        b = model.complex_bingham
        V = np.asarray(b.covariance_eigenvectors)
        lam = np.asarray(b.covariance_eigenvalues, dtype=np.float64)
        for idx in np.ndindex(*scat.shape[:-2]):
            S = scat[idx]
            ev = np.linalg.eigvalsh(S)
            res = np.linalg.norm(S @ V[idx] - V[idx] * ev) / max(ev.max(), 1e-300)
            require(res <= 1e-7, 'bingham-m-step-eigenvectors-are-not-scatter-eigenvectors',
                    f'iteration {it} class {idx}: residual {res:.3e}', kind=kind)
            require(abs(lam[idx].max()) <= 1e-6, 'bingham-m-step-largest-eigenvalue-not-zero',
                    f'{lam[idx]}', kind=kind)
            li = np.sort(lam[idx])
            mc = case.trainer_kwargs.get('max_concentration', np.inf)
            if np.min(np.diff(li)) < 1e-3 or np.min(np.diff(ev)) < 1e-4 or \
                    li.min() < -400 or li.min() <= -0.999 * mc:
                continue       # bound / duplicate-eigenvalue guard active
            mom = oe.bingham_moments(lam[idx])
            # the bounded least-squares solver stops on a relative change of
            # its cost 0.5*|residual|^2 of 1e-8 (scipy defaults): residuals of
            # a few 1e-4 are "converged" for it (seen: 4.6e-4 for a scatter
            # eigenvalue of 2.7e-3, 2 of 52 600 cases); mutants give O(0.1)
            require(np.max(np.abs(mom - ev)) <= 2e-3,
                    'bingham-m-step-eigenvalues-do-not-solve-the-moment-equation',
                    f'iteration {it} class {idx}: E|z_j|^2 {mom} scatter {ev}', kind=kind)
        got.pop('bingham_matrix', None)
    if kind == 'cwmm':
        conc = got.pop('watson_concentration')
        mc = case.trainer_kwargs.get('max_concentration', 500)
        for idx in np.ndindex(*lam_max.shape):
            _check_watson_concentration(case.D, float(conc[idx]), float(lam_max[idx]),
                                        mc, 'cwmm',
                                        case.trainer_kwargs.get('spline_markers', 1000))
        if np.any(gap < 1e-6):
            got.pop('watson_projector')
            exp.pop('watson_projector')
    got = {k: got[k] for k in exp}
    mm.compare_params(exp, got, 'm-step-is-not-the-documented-estimator',
                      rtol=1e-7, atol=1e-9, kind=kind, what=f'iteration {it}')


def estep_oracle(case, model):
    """independent Bayes posterior (clipped) and quadratic form under
    ``model``"""
    lp = mm.oracle_component_log_pdf(model, case)
    mask = case.opts.get('source_activity_mask')
    post = mm.bayes_posterior(model, case, mask=mask, log_pdf=lp)
    eps = case.opts.get('affiliation_eps', 0.0) or 0.0
    if eps:
        post = np.clip(post, eps, 1 - eps)
    q = None
    if case.kind in ('cacgmm', 'gcacgmm', 'vmfcacgmm'):
        z = oe.unit(np.asarray(case.y, dtype=np.complex128))
        cov = mm.params(model, case)['cacg_covariance']
        q = np.empty(case.aff_shape)
        for idx in np.ndindex(*case.lead):
            for k in range(case.K):
                q[idx][k] = oe.quadratic_form(z[idx], cov[idx][k])
    return post, q


def _match_permuted(exp_aff, exp_q, got_aff, got_q, K, tol):
    """one common class permutation per leading index (inline alignment)"""
    F = exp_aff.shape[0]
    for f in range(F):
        found = False
        for perm in itertools.permutations(range(K)):
            p = list(perm)
            if np.allclose(exp_aff[f][p], got_aff[f], rtol=0, atol=tol) and (
                    exp_q is None or np.allclose(
                        exp_q[f][p], got_q[f], rtol=1e-6, atol=1e-12)):
                found = True
                break
        if not found:
            return False, f
    return True, None


def _em(d, ctx, kind, **kw):
    case = mm.draw_case(
        d, [kind], degenerate=False, general_position=True,
        single_precision=False, allow_scale=False, allow_num_classes=False,
        regular_share=False, positive_saliency_only=True, stable_only=True,
        **kw)
    if kind in mm.INTEGRATION:
        case.opts['inline_permutation_alignment'] = False
    case.iterations = d.choice([1, 2, 3, 5, 8])
    ctx.describe(**case.describe())
    ctx.label(kind, f'wca={case.opts.get("weight_constant_axis")}',
              f'saliency={case.meta.get("saliency")}',
              f'eps={case.opts.get("affiliation_eps")}',
              'aligner=' + str(case.meta.get('aligner')))
    from pb_bss import _verif
    trace = []

    def cb(**k):
        trace.append((k['model'], np.array(k['affiliation'], copy=True),
                      None if k['quadratic_form'] is None
                      else np.array(k['quadratic_form'], copy=True)))
    _verif.register(cb)
    try:
        final = ctx.lib(mm.fit, case, allow_if=mm.explicit_refusal)
    finally:
        _verif.unregister(cb)
    aligner = case.opts.get('inline_permutation_aligner')
    tol = 1e-7
    if len(trace) == case.iterations:
        ctx.label('per-iteration(hook)')
        for it, (model, aff, q) in enumerate(trace):
            if mm.ill_conditioned(model, case):
                # the estimator clause is well defined on a guard too (the
                # oracles clip / floor like the documentation says): judge the
                # M-step that produced this model, then stop - the E-step
                # comparison of the next iteration would amplify rounding
                if it == 0 or not mm.ill_conditioned(trace[it - 1][0], case):
                    compare_mstep(case, model, mstep_oracle(case, aff, q), it)
                raise Borderline('fit sits on a numerical guard')
            if it == 0:
                require_close(np.broadcast_to(aff, case.aff_shape),
                              np.broadcast_to(case.init, case.aff_shape),
                              'first-m-step-uses-the-initialisation', atol=0)
                if q is not None:
                    require(np.all(q == 1), 'first-quadratic-form-is-one', '')
            else:
                exp_aff, exp_q = estep_oracle(case, trace[it - 1][0])
                if aligner is not None:
                    ok, f = _match_permuted(exp_aff, exp_q, aff, q, case.K, tol)
                    require(ok, 'e-step-is-not-a-common-permutation-of-the-bayes-posterior',
                            f'iteration {it} bin {f}', kind=kind)
                    # ... and it is the permutation the aligner prescribes for
                    # that posterior (judged when the decision is stable
                    # against a 1e-9 perturbation of the posterior)
                    kft = np.transpose(exp_aff, (1, 0, 2))
                    m0 = np.asarray(aligner.calculate_mapping(kft.copy()))
                    m1 = np.asarray(aligner.calculate_mapping(
                        kft * (1 + 1e-9 * np.cos(np.arange(kft.size)).reshape(kft.shape))))
                    if np.array_equal(m0, m1):
                        exp_al = np.transpose(aligner.apply_mapping(kft, m0), (1, 0, 2))
                        require_close(aff, exp_al, 'inline-alignment-not-applied-to-the-e-step',
                                      atol=tol, what=f'iteration {it} of {case.iterations}',
                                      kind=kind)
                        ctx.label('alignment-checked')
                else:
                    require_close(aff, exp_aff, 'e-step-is-not-the-bayes-posterior',
                                  atol=tol, what=f'iteration {it}', kind=kind)
                    if q is not None:
                        require_close(q, exp_q, 'quadratic-form-is-not-from-preceding-e-step',
                                      rtol=1e-6, atol=1e-12, what=f'iteration {it}',
                                      kind=kind)
            compare_mstep(case, model, mstep_oracle(case, aff, q), it)
        a, b = mm.params(final, case), mm.params(trace[-1][0], case)
        for key in a:
            require(np.array_equal(a[key], b[key]), 'returned-model-is-last-iterate', key)
    else:
        # hook-free fallback: compose the reference EM end to end
        ctx.label('end-to-end(no hook)')
        if aligner is not None:
            raise Borderline('inline aligner needs the trace')
        aff = np.broadcast_to(case.init, case.aff_shape)
        q = np.ones(case.aff_shape)
        model = None
        for it in range(case.iterations):
            if it > 0:
                model = ctx.lib(mm.fit, case, iterations=it)
                if mm.ill_conditioned(model, case):
                    raise Borderline('fit sits on a numerical guard')
                aff, q = estep_oracle(case, model)
            nxt = ctx.lib(mm.fit, case, iterations=it + 1)
            compare_mstep(case, nxt, mstep_oracle(case, aff, q), it)
    ctx.nontrivial(case.K >= 2 and (case.iterations >= 2
                                    or case.meta.get('saliency') != 'none'))


@subcheck(SUBCHECKS, 'em_alternation_with_aligner', quick=160, thorough=2500)
def em_alternation_with_aligner(d, ctx):
    """scenes with a real frequency permutation problem and an inline
    aligner: every E-step handed to an M-step is the aligned Bayes posterior"""
    _em(d, ctx, d.choice(['cacgmm', 'cacgmm', 'cwmm']), max_K=3, max_D=4,
        force_aligner=True, allow_mask=False)


def _builtin_alignment(d, ctx, kind):
    """integration models with their built-in spatial/spectral alignment
    switched on: every E-step inside fit is the Bayes posterior of *some* class
    permutation (per frequency) of the spatial stream, that permutation is not
    worse than the identity under the alignment's own criterion, and every
    M-step is the documented estimator for the affiliation it was handed"""
    case = mm.draw_case(
        d, [kind], degenerate=False, general_position=True,
        single_precision=False, allow_scale=False, allow_num_classes=False,
        regular_share=False, positive_saliency_only=True, stable_only=True,
        max_K=3, max_D=4, max_iterations=3)
    case.opts['inline_permutation_alignment'] = True
    case.omit = set(getattr(case, 'omit', ())) - {'inline_permutation_alignment'}
    if case.opts.get('spatial_weight', 1.0) == 0.0:
        case.opts['spatial_weight'] = 0.5
    if case.opts.get('spectral_weight', 1.0) == 0.0:
        case.opts['spectral_weight'] = 2.0
    case.iterations = d.choice([2, 3, 4])
    ctx.describe(**case.describe())
    ctx.label(kind, f'sw={case.opts.get("spatial_weight")}/{case.opts.get("spectral_weight")}',
              f'eps={case.opts.get("affiliation_eps")}')
    from pb_bss import _verif
    trace = []

    def cb(**k):
        trace.append((k['model'], np.array(k['affiliation'], copy=True),
                      None if k['quadratic_form'] is None
                      else np.array(k['quadratic_form'], copy=True)))
    _verif.register(cb)
    try:
        ctx.lib(mm.fit, case, allow_if=mm.explicit_refusal)
    finally:
        _verif.unregister(cb)
    if len(trace) != case.iterations:
        raise Borderline('no per-iteration trace (hook not available)')
    F, K, N = case.lead[0], case.K, case.N
    eps = case.opts.get('affiliation_eps', 1e-10) or 0.0
    checked = 0
    for it, (model, aff, q) in enumerate(trace):
        if mm.ill_conditioned(model, case):
            raise Borderline('fit sits on a numerical guard')
        if it > 0:
            prev = trace[it - 1][0]
            spatial, spectral = mm.oracle_stream_log_pdfs(prev, case)
            spatial = prev.spatial_weight * spatial
            spectral = prev.spectral_weight * spectral
            wb = np.broadcast_to(np.asarray(mm.weight_broadcast(prev, case), dtype=float),
                                 (F, K, N))

            def post_of(lp, w):
                m = lp.max(axis=0, keepdims=True)
                num = w * np.exp(lp - m)
                p = num / np.maximum(num.sum(axis=0, keepdims=True), np.finfo(float).tiny)
                return np.clip(p, eps, 1 - eps) if eps else p

            def aux(lp):
                a = np.exp(lp - lp.max(axis=0, keepdims=True))
                a = a / np.maximum(a.sum(axis=0, keepdims=True), np.finfo(float).tiny)
                return float(np.sum(a * lp))
            for f in range(F):
                ident = aux(spatial[f] + spectral[f])
                matches = []
                for perm in itertools.permutations(range(K)):
                    lp = spatial[f][list(perm)] + spectral[f]
                    if np.allclose(post_of(lp, wb[f]), aff[f], rtol=0, atol=1e-7):
                        matches.append((aux(lp), perm))
                require(matches, 'builtin-alignment-e-step-is-no-permutation-of-the-stream-posterior',
                        f'iteration {it} bin {f}: no class permutation of the spatial '
                        f'stream reproduces the affiliation handed to the M-step', kind=kind)
                best = max(a for a, _ in matches)
                require(best >= ident - 1e-7 * (1 + abs(ident)),
                        'builtin-alignment-worse-than-identity',
                        f'iteration {it} bin {f}: criterion {best} < identity {ident}', kind=kind)
                checked += 1
        compare_mstep(case, model, mstep_oracle(case, aff, q), it)
    ctx.nontrivial(checked > 0 and K >= 2)


def _make_builtin(kind, quick, thorough):
    @subcheck(SUBCHECKS, f'em_builtin_alignment_{kind}', quick=quick, thorough=thorough)
    def fn(d, ctx, _kind=kind):
        _builtin_alignment(d, ctx, _kind)
    return fn


_make_builtin('gcacgmm', 120, 2000)
_make_builtin('vmfcacgmm', 120, 2000)


def _make_em(kind, quick, thorough, **kw):
    @subcheck(SUBCHECKS, f'em_alternation_{kind}', quick=quick, thorough=thorough)
    def fn(d, ctx, _kind=kind, _kw=kw):
        _em(d, ctx, _kind, **_kw)
    return fn


_make_em('cacgmm', 220, 3500, max_K=3, max_D=4, max_lead=1)
_make_em('cwmm', 160, 2500, max_K=3, max_D=4, max_lead=1)
_make_em('cbmm', 30, 400, max_K=2, max_D=3, max_lead=0, allow_aligner=False)
_make_em('gmm', 200, 3000, max_K=3, max_D=4, max_lead=1)
_make_em('vmfmm', 160, 2500, max_K=3, max_D=4, max_lead=1)
_make_em('gcacgmm', 120, 2000, max_K=3, max_D=3)
_make_em('vmfcacgmm', 120, 2000, max_K=3, max_D=3)


# ---------------------------------------------------------------------------
# repetition law
# ---------------------------------------------------------------------------

def _repeat_case(case, s):
    """observations repeated s_n times (s integer array (*lead, N) whose
    sum over n is the same in every slice)"""
    lead, N = case.lead, case.N
    total = int(s[(0,) * len(lead)].sum())
    idx = np.empty((*lead, total), dtype=int)
    for li in np.ndindex(*lead):
        idx[li] = np.repeat(np.arange(N), s[li].astype(int))
    rep = case.copy(N=total)
    rep.y = np.take_along_axis(case.y, idx[..., None], axis=-2)
    if case.emb is not None:
        rep.emb = np.take_along_axis(case.emb, idx[..., None], axis=-2)
    init = np.broadcast_to(case.init, case.aff_shape)
    rep.init = np.take_along_axis(init, idx[..., None, :], axis=-1)
    rep.opts.pop('saliency', None)
    if 'source_activity_mask' in rep.opts:
        rep.opts['source_activity_mask'] = np.take_along_axis(
            case.opts['source_activity_mask'], idx[..., None, :], axis=-1)
    return rep, idx


def _repetition(d, ctx, kind, **kw):
    case = mm.draw_case(
        d, [kind], degenerate=False, general_position=True,
        single_precision=False, allow_scale=False, allow_num_classes=False,
        allow_aligner=False, regular_share=False, stable_only=True, **kw)
    if kind in mm.INTEGRATION:
        case.opts['inline_permutation_alignment'] = False
    rng = d.rng()
    lead, N = case.lead, case.N
    # integer saliency 1..4 with equal total per slice (rectangular arrays)
    base = rng.integers(1, 5, size=N)
    s = np.stack([rng.permutation(base) for _ in range(int(np.prod(lead, dtype=int)))]
                 ).reshape(*lead, N).astype(float) if lead else base.astype(float)
    case.opts['saliency'] = s
    case.opts.pop('source_activity_mask', None)
    wca = case.opts.get('weight_constant_axis')
    nd = len(case.aff_shape)
    # per-frame weights (tied over a leading axis only) have no counterpart
    # for repeated frames of different slices: keep the frame axis tied
    if kind in mm.INTEGRATION:
        if -1 not in tuple(wca):
            case.opts['weight_constant_axis'] = (-1,)
    elif isinstance(wca, (tuple, list)) and -1 not in tuple(wca) or wca == -3:
        case.opts['weight_constant_axis'] = (-1,)
    ctx.describe(**case.describe())
    ctx.label(kind, f'wca={case.opts.get("weight_constant_axis")}')
    m1 = ctx.lib(mm.fit, case, allow_if=mm.explicit_refusal)
    if mm.ill_conditioned(m1, case):
        raise Borderline('fit sits on a numerical guard')
    rep, idx = _repeat_case(case, s)
    # an explicit refusal of the repeated data (collapsing Gaussian component:
    # Cholesky of a covariance that is singular up to rounding) is a numerical
    # guard, not a statement about the repetition law
    m2 = ctx.lib(mm.fit, rep, allow_if=mm.explicit_refusal,
                 clause='repeated-data-raises')
    p1, p2 = mm.params(m1, case), mm.params(m2, rep)
    # with a clipping constant the plain-mean weight update (no saliency) and
    # the L1-normalised one (saliency) differ by up to K*eps per iteration
    eps = case.opts.get('affiliation_eps', 0.0) or 0.0
    slack = 20 * case.K * eps * case.iterations
    mm.compare_params(p1, p2, 'integer-saliency-differs-from-repetition',
                      rtol=1e-6 + slack, atol=1e-8 + slack, kind=kind)
    ctx.nontrivial(True)


def _make_rep(kind, quick, thorough, **kw):
    @subcheck(SUBCHECKS, f'repetition_{kind}', quick=quick, thorough=thorough)
    def fn(d, ctx, _kind=kind, _kw=kw):
        _repetition(d, ctx, _kind, **_kw)
    return fn


_make_rep('cacgmm', 120, 2000, max_K=3, max_D=4, max_lead=1, max_iterations=5)
_make_rep('cwmm', 100, 1500, max_K=3, max_D=4, max_lead=1, max_iterations=5)
_make_rep('cbmm', 20, 300, max_K=2, max_D=3, max_lead=0, max_iterations=2)
_make_rep('gmm', 100, 1500, max_K=3, max_D=4, max_lead=1, max_iterations=5)
_make_rep('vmfmm', 100, 1500, max_K=3, max_D=4, max_lead=1, max_iterations=5)
_make_rep('gcacgmm', 80, 1200, max_K=3, max_D=3, max_iterations=4)
_make_rep('vmfcacgmm', 80, 1200, max_K=3, max_D=3, max_iterations=4)


@subcheck(SUBCHECKS, 'gaussian_recording_sized', quick=3, thorough=12, min_nontrivial=0.0)
def gaussian_recording_sized(d, ctx):
    """weighted mean and pooled scatter of a whole recording (N*D of 4e6..1e7
    values, where implementations switch to one-pass or blockwise sums), with a
    common offset of up to 1e6 standard deviations; reference by exactly
    rounded sums (math.fsum).  A few cases per run, seconds each."""
    import pb_bss.distribution as dist
    D = d.int(2, 6)
    N = int(2 ** 22 * d.float(1.1, 2.0) / D) + d.int(0, 9)
    ct = d.choice(['full', 'diagonal', 'spherical'])
    offset = 10.0 ** d.float(0, 6)
    with_sal = d.bool()
    rng = d.rng()
    y = rng.normal(size=(N, D)) * 10 ** rng.uniform(-0.5, 0.5, size=D) + \
        offset * gen.unit(rng.normal(size=D))
    sal = rng.uniform(0.1, 2.0, size=N) if with_sal else None
    ctx.describe(D=D, N=N, covariance_type=ct, offset=offset, saliency=with_sal)
    ctx.label('recording-sized', ct)
    m = ctx.lib(dist.GaussianTrainer().fit, y, saliency=sal, covariance_type=ct)
    w = np.ones(N) if sal is None else sal
    tot = math.fsum(w)
    mean = np.array([math.fsum(w * y[:, j]) for j in range(D)]) / tot
    v = y - mean
    S = np.empty((D, D))
    for i in range(D):
        for j in range(i, D):
            S[i, j] = S[j, i] = math.fsum(w * v[:, i] * v[:, j]) / tot
    cov = S if ct == 'full' else (np.diag(S).copy() if ct == 'diagonal'
                                   else float(np.trace(S) / D))
    require_close(np.asarray(m.mean), mean, 'gaussian-mean', rtol=1e-10, atol=1e-12)
    require_close(np.asarray(m.covariance), cov, f'gaussian-covariance-{ct}',
                  rtol=1e-8 + 1e-12 * offset, atol=1e-12,
                  what=f'recording-sized, offset {offset:g}')
    ctx.nontrivial(True)
