"""C20 - calls are pure: inputs untouched, results reproducible and
history-free.

Part A (stateless): every public entry point is called with read-only
arguments; afterwards the bytes are identical, and a repeated call reproduces
the result bit for bit.
Part B (stateful, Hypothesis RuleBasedStateMachine): a long-lived trainer that
is reused over a drawn history of fits must always agree with a fresh trainer;
cACGMM fits split into consecutive continued fits equal the single fit.
"""
import dataclasses
import itertools
import json

import numpy as np

from pbv import gen, mm
from pbv.core import (Borderline, Rejected, Violation, digest_choices, require,
                      subcheck)

SUBCHECKS = []
RULE = (
    'Part A: ~60 public entry points (mixture trainers fit / predict / '
    'fit_predict with every option, single trainers, log_pdf, '
    'from_covariance, PSD and beamforming functions and wrapper names, mask '
    'functions, aligners, metrics) called twice with all array arguments '
    'read-only. Part B: rule-based state machines, one per trainer class: '
    'rules fit(new data / same data, new options, other class count), '
    'fit_wrong_dimension, (cACGMM) split_fit; invariant after every step: '
    'result == result of a fresh trainer, bit for bit; splits n = n1+..+nj '
    'of n <= 6 enumerated exhaustively (all 2^(n-1) compositions), n <= 20 '
    'drawn. Non-trivial: Part A - at least one array argument and a '
    'returned array; Part B - history length >= 2 with a change of data or '
    'options, or a split into >= 2 parts. Distinct = distinct recorded '
    'choice sequence / distinct step log.'
)


# ---------------------------------------------------------------------------
# helpers
# ---------------------------------------------------------------------------

from pbv.valueproto import canon, same  # noqa: E402
from pbv.valueproto import entry_name as _entry_name  # noqa: E402
from pbv.valueproto import fresh as _fresh  # noqa: E402
from pbv.valueproto import reachable_arrays as _reachable_arrays  # noqa: E402
from pbv.valueproto import refilled_buffer as _refilled_buffer_protocol  # noqa: E402


def has_array(c):
    if isinstance(c, np.ndarray):
        return c.size > 0
    if isinstance(c, dict):
        return any(has_array(v) for v in c.values())
    if isinstance(c, list):
        return any(has_array(v) for v in c)
    return isinstance(c, np.generic)


def freeze(obj, store):
    """make every ndarray inside args read-only; remember its bytes"""
    if isinstance(obj, np.ndarray):
        obj.setflags(write=False)
        store.append((obj, obj.tobytes(), obj.shape, obj.dtype))
    elif isinstance(obj, dict):
        for v in obj.values():
            freeze(v, store)
    elif isinstance(obj, (list, tuple)):
        for v in obj:
            freeze(v, store)


def deep_copy_args(obj):
    if isinstance(obj, np.ndarray):
        return np.array(obj)
    if isinstance(obj, dict):
        return {k: deep_copy_args(v) for k, v in obj.items()}
    if isinstance(obj, list):
        return [deep_copy_args(v) for v in obj]
    if isinstance(obj, tuple):
        return tuple(deep_copy_args(v) for v in obj)
    return obj


def pure_call(ctx, name, fn, args, kwargs, np_seed=None, allow_refusal=True):
    """the purity protocol for one entry point"""
    a1, k1 = deep_copy_args(args), deep_copy_args(kwargs)
    if np_seed is not None:
        np.random.seed(np_seed)
    try:
        r1 = fn(*a1, **k1)
    except Exception as e:  # noqa
        # the entry point refuses this input also when it is writable:
        # nothing to say about purity
        raise Rejected(f'{type(e).__name__}: {str(e)[:60]}')
    a2, k2 = deep_copy_args(args), deep_copy_args(kwargs)
    store = []
    freeze(a2, store)
    freeze(k2, store)
    if np_seed is not None:
        np.random.seed(np_seed)
    try:
        r2 = fn(*a2, **k2)
    except Exception as e:  # noqa
        raise Violation('read-only-argument-rejected',
                        f'{name}: {type(e).__name__}: {str(e)[:160]}', entry=name)
    for arr, b, shape, dtype in store:
        require(arr.tobytes() == b and arr.shape == shape and arr.dtype == dtype,
                'argument-modified', name, entry=name)
    # the writable call must not have modified its arguments either
    for x, y in zip(_arrays(a1) + _arrays(k1), _arrays(args) + _arrays(kwargs)):
        require(np.array_equal(x, y, equal_nan=True), 'argument-modified',
                f'{name} (writable argument)', entry=name)
    c1, c2 = canon(r1), canon(r2)
    require(same(c1, c2), 'repeated-call-differs', name, entry=name)
    return c1


def _arrays(obj):
    out = []
    if isinstance(obj, np.ndarray):
        out.append(obj)
    elif isinstance(obj, dict):
        for v in obj.values():
            out.extend(_arrays(v))
    elif isinstance(obj, (list, tuple)):
        for v in obj:
            out.extend(_arrays(v))
    return out


# ---------------------------------------------------------------------------
# Part A - stateless purity
# ---------------------------------------------------------------------------

@subcheck(SUBCHECKS, 'purity_mixture', quick=500, thorough=8000)
def purity_mixture(d, ctx):
    kind = d.choice(mm.KINDS)
    kw = dict(max_N=20, max_K=3, max_iterations=2, max_lead=1) if kind == 'cbmm' else \
        dict(max_N=25, max_K=4, max_iterations=4)
    case = mm.draw_case(d, [kind], degenerate=True, **kw)
    method = d.choice(['fit', 'fit_predict', 'fit+predict'])
    ctx.describe(method=method, **case.describe())
    ctx.label(kind, method)
    args, kwargs = mm._fit_args(case, None, None)
    kwargs = dict(kwargs)
    trainer_kwargs = dict(case.trainer_kwargs)

    def call(**k):
        tr = mm.trainer_cls(kind)(**trainer_kwargs)
        if method == 'fit':
            return getattr(tr, 'fit')(**k)
        if method == 'fit_predict':
            return getattr(tr, 'fit_predict')(**k)
        model = tr.fit(**k)
        if kind in mm.INTEGRATION:
            return model, model.predict(observation=k['observation'], embedding=k['embedding'])
        return model, model.predict(k['y'])

    c = pure_call(ctx, f'{kind}.{method}', call, (), {**args, **kwargs},
                  np_seed=case.np_seed)
    ctx.nontrivial(has_array(c))


more_label = []


def _more_entry_points(name, d, rng, v):
    """returns (call, args, kwargs, numpy seed) or None when ``name`` is
    handled by the first table"""
    import pb_bss.distribution as dist
    import pb_bss.extraction.beamformer as bf
    import pb_bss.extraction.beamformer_wrapper as bw
    import pb_bss.extraction.mask_module as mk
    import pb_bss.permutation_alignment as pa
    from pb_bss.distribution import complex_angular_central_gaussian as m_cacg
    from pb_bss.distribution import complex_bingham as m_bing
    from pb_bss.distribution import complex_watson as m_wat
    from pb_bss.distribution import utils as dutils
    D, N, F, K, T, lead = v['D'], v['N'], v['F'], v['K'], v['T'], v['lead']
    yc, yr, hp, hx, w, X = v['yc'], v['yr'], v['hp'], v['hx'], v['w'], v['X']
    if name == 'cacgmm.log_likelihood':
        model = dist.CACGMMTrainer().fit(yc, initialization=np.moveaxis(
            rng.dirichlet(np.ones(K), size=(*lead, N)), -1, -2), iterations=1)
        return model.log_likelihood, (yc,), {}, None
    if name == 'normalize_observation':
        which = d.choice(['cacg', 'watson', 'bingham'])
        more_label.append(which)
        fn = {'cacg': m_cacg, 'watson': m_wat, 'bingham': m_bing}[which].normalize_observation
        return fn, (yc,), {}, None
    if name in ('log_norm', 'pdf'):
        which = d.choice(['watson', 'vmf', 'bingham'])
        more_label.append(which)
        if which == 'watson':
            m = dist.ComplexWatson(mode=gen.unit(gen.cnormal(rng, (*lead, D))),
                                   concentration=np.asarray(rng.uniform(1, 20, size=lead)))
            arg = gen.unit(yc)
        elif which == 'vmf':
            m = dist.VonMisesFisher(mean=gen.unit(rng.normal(size=(*lead, D))),
                                    concentration=np.asarray(rng.uniform(1, 20, size=lead)))
            arg = yr
        else:
            lam = -np.sort(rng.uniform(0, 10, size=D))[::-1]
            m = m_bing.ComplexBingham(gen.haar_unitary(rng, D), lam - lam.max())
            arg = gen.unit(yc)
        if name == 'log_norm':
            return (lambda m_: (m_.log_norm(), m_)), (m,), {}, None
        return m.pdf, (arg,), {}, None
    if name == 'watson.hypergeometric':
        tr = dist.ComplexWatsonTrainer(D)
        if d.bool():
            return tr.hypergeometric_ratio, (rng.uniform(0, 50, size=(N,)),), {}, None
        return tr.hypergeometric_ratio_inverse, (rng.uniform(1 / D, 0.98, size=(N,)),), {}, None
    if name == 'force_hermitian':
        fn = dutils.force_hermitian if d.bool() else m_bing.force_hermitian
        return fn, (gen.cnormal(rng, (*lead, D, D)),), {}, None
    if name == 'stack_parameters':
        ms = [dist.ComplexAngularCentralGaussian.from_covariance(gen.hpd(rng, D, 10, 1.0, ()))
              for _ in range(2)]
        if d.bool():
            ms = [dist.CACGMM(cacg=m, weight=np.array([0.3 + i])) for i, m in enumerate(ms)]
        return dutils.stack_parameters, (ms,), {}, None
    if name == 'get_pca':
        return bf.get_pca, (hx,), dict(return_all_vecs=d.bool()), None
    if name == 'merl':
        return bf.get_mvdr_vector_merl, (hx, hp), {}, None
    if name == 'distortionless':
        return bf.distortionless_normalization, (w, gen.cnormal(rng, (F, D)), hp), {}, None
    if name == 'snr_postfilter':
        return bf.mvdr_snr_postfilter, (w, hx, hp), {}, None
    if name == 'zero_degree':
        return bf.zero_degree_normalization, (gen.cnormal(rng, (*lead, F, D)), d.int(0, D - 1)), {}, None
    if name == 'apply_online':
        return bf.apply_online_beamforming_vector, (gen.cnormal(rng, (T, F, D)), X), {}, None
    if name == 'optimal_reference_channel':
        wm = gen.cnormal(rng, (F, D, D))
        return bf.get_optimal_reference_channel, (wm, hx, hp), {}, None
    if name == 'rank_one':
        if d.bool():
            return bw.get_pca_rank_one_estimate, (hx,), {}, None
        return bw.get_gev_rank_one_estimate, (hx, hp), {}, None
    if name == 'biased_binary_mask':
        return mk.biased_binary_mask, (gen.cnormal(rng, (2, T, 17)),), {}, None
    if name == 'interleave':
        return (lambda a_, b_: list(pa.interleave(a_, b_))), (
            rng.normal(size=(3,)), rng.normal(size=(d.int(1, 5),))), {}, None
    if name == 'sample_random_mapping':
        return pa.sample_random_mapping, (K, F), {}, d.int(0, 99)
    if name == 'energy':
        from pb_bss.evaluation import sxr_module as sx
        fn = sx.get_energy if d.bool() else sx.get_variance_for_zero_mean_signal
        return fn, (v['real'],), dict(axis=d.choice([None, -1]), keepdims=d.bool()), None
    if name == 'init.deflation':
        from pb_bss.initializer import deflation
        Y = gen.cnormal(rng, (257, 12, D))
        return deflation.deflationSeed, (Y, K), dict(
            permutation_free=d.bool(), neighbors=d.int(1, 4)), None
    if name == 'stable_solve':
        from pb_bss.math.solve import stable_solve
        A = np.array(hp)
        if d.bool():
            A[d.int(0, F - 1)] = 0          # the least-squares fallback
        return stable_solve, (A, hx), {}, None
    if name == 'binary_gmm':
        from pb_bss.distribution.gmm import BinaryGMMTrainer
        x = rng.normal(size=(N, D)) + 3 * rng.integers(0, 2, size=(N, 1))
        use_sal = d.bool()
        return (lambda x_, s_: (lambda m_: m_.predict(x_))(
            BinaryGMMTrainer().fit(x_, 2, saliency=s_))), (
            x, (rng.uniform(size=N) > 0.2) if use_sal else None), {}, d.int(0, 99)
    if name == 'sample':
        which = d.choice(['cacgmm', 'cacg', 'ccsg'])
        more_label.append(which)
        cov = gen.hpd(rng, D, 10, 1.0, (K,))
        if which == 'cacgmm':
            from pb_bss.distribution.cacgmm import sample_cacgmm
            wgt = rng.dirichlet(np.ones(K))
            return sample_cacgmm, (d.int(1, 20), wgt, cov), dict(return_label=d.bool()), d.int(0, 99)
        if which == 'cacg':
            return m_cacg.sample_complex_angular_central_gaussian, ((d.int(1, 9),), cov[0]), {}, d.int(0, 99)
        m = dist.ComplexCircularSymmetricGaussian(covariance=cov[0])
        return m.sample, ((d.int(1, 9),),), {}, d.int(0, 99)
    if name == 'integration_affiliation':
        from pb_bss.distribution.mixture_model_utils import \
            log_pdf_to_affiliation_for_integration_models_with_inline_pa as fn
        Fq = 3
        return fn, (np.full((K, 1), 1 / K), rng.normal(size=(Fq, K, N)) * 5,
                    rng.normal(size=(Fq, K, N)) * 5), dict(
            source_activity_mask=d.choice([None, 1]) and (rng.uniform(size=(Fq, K, N)) > 0.2),
            affiliation_eps=d.choice([0., 1e-10])), None
    if name == 'bingham.find_eigenvalues':
        ev = np.sort(rng.dirichlet(np.ones(3)))
        which = d.choice(['v2', 'v3'])
        more_label.append(which)
        fn = getattr(m_bing.ComplexBinghamTrainer, 'find_eigenvalues_' + which)
        return fn, (ev,), dict(max_concentration=d.choice([np.inf, 500.])), None
    return None


@subcheck(SUBCHECKS, 'purity_functions', quick=1600, thorough=26000)
def purity_functions(d, ctx):
    import pb_bss.distribution as dist
    import pb_bss.extraction.beamformer as bf
    import pb_bss.extraction.beamformer_wrapper as bw
    import pb_bss.extraction.mask_module as mk
    import pb_bss.permutation_alignment as pa
    from pb_bss.distribution.complex_bingham import ComplexBingham, ComplexBinghamTrainer
    from pb_bss.distribution.mixture_model_utils import (
        apply_inline_permutation_alignment, estimate_mixture_weight,
        log_pdf_to_affiliation)
    from pb_bss.evaluation.module_si_sdr import si_sdr
    from pb_bss.evaluation.sxr_module import get_snr, input_sxr, output_sxr, set_snr
    from pb_bss.initializer import deterministic, iid
    rng = d.rng()
    D = d.int(2, 5)
    N = d.int(2 * D, 2 * D + 10)
    F = d.choice([1, 3, 5])
    K = d.int(2, 3)
    T = d.int(4, 9)
    lead = tuple(d.int(1, 2) for _ in range(d.int(0, 1)))
    yc = gen.cnormal(rng, (*lead, N, D))
    yr = rng.normal(size=(*lead, N, D))
    sal = rng.uniform(0.2, 2, size=(*lead, N))
    hp = gen.hpd(rng, D, 20, 1.0, (F,))
    hx = gen.hpd(rng, D, 20, 1.0, (F,))
    w = gen.cnormal(rng, (F, D))
    X = gen.cnormal(rng, (F, D, T))
    mask = rng.uniform(size=(F, K, T))
    sig = gen.cnormal(rng, (K, F, T))
    pmask = rng.uniform(0.05, 1, size=(K, F, T))
    real = rng.normal(size=(K, D, 30))
    norm = d.choice(['eigenvalue', 'trace', False])
    name = d.choice([
        'cacg.fit', 'cacg.log_pdf', 'cacg.from_covariance', 'watson.fit', 'watson.log_pdf',
        'vmf.fit', 'vmf.log_pdf', 'gaussian.fit', 'gaussian.log_pdf', 'ccsg.fit',
        'ccsg.log_pdf', 'bingham.fit', 'bingham.log_pdf', 'psd', 'psd-bool', 'pca',
        'gev', 'mvdr', 'souden', 'wmwf', 'lcmv', 'ban', 'phase_correction',
        'condition_covariance', 'apply', 'bf_vector', 'ibm', 'wiener', 'irm', 'iam',
        'psm', 'icm', 'lorenz', 'quantile', 'dhtv', 'dhtv-euclidean', 'greedy',
        'oracle', 'apply_mapping', 'score_mapping', 'inline_alignment',
        'estimate_mixture_weight', 'log_pdf_to_affiliation', 'si_sdr', 'input_sxr',
        'output_sxr', 'get_snr', 'set_snr', 'init.iid', 'init.flag',
        # entry points nobody else calls (second pass over the public names)
        'cacgmm.log_likelihood', 'normalize_observation', 'log_norm', 'pdf',
        'watson.hypergeometric', 'force_hermitian', 'stack_parameters', 'get_pca',
        'merl', 'distortionless', 'snr_postfilter', 'zero_degree', 'apply_online',
        'optimal_reference_channel', 'rank_one', 'biased_binary_mask', 'interleave',
        'sample_random_mapping', 'energy', 'init.deflation', 'stable_solve',
        'binary_gmm', 'sample', 'integration_affiliation', 'bingham.find_eigenvalues'])
    seed = None
    more = _more_entry_points(name, d, rng, dict(
        D=D, N=N, F=F, K=K, T=T, lead=lead, yc=yc, yr=yr, sal=sal, hp=hp, hx=hx, w=w,
        X=X, mask=mask, sig=sig, pmask=pmask, real=real))
    if more is not None:
        call, a, k, seed = more
        name = name + (':' + more_label[0] if more_label else '')
        del more_label[:]
        return _finish_purity(d, ctx, name, call, a, k, seed, D, N, F, K, lead)
    if name == 'cacg.fit':
        call, a, k = dist.ComplexAngularCentralGaussianTrainer().fit, (yc,), dict(
            covariance_norm=norm, iterations=2)
    elif name == 'cacg.log_pdf':
        m = dist.ComplexAngularCentralGaussian.from_covariance(gen.hpd(rng, D, 10, 1.0, lead))
        call, a, k = m.log_pdf, (yc,), {}
    elif name == 'cacg.from_covariance':
        call, a, k = dist.ComplexAngularCentralGaussian.from_covariance, (
            gen.hpd(rng, D, 10, 1.0, lead),), dict(covariance_norm=norm,
                                                    eigenvalue_floor=d.choice([0., 1e-10]))
    elif name == 'watson.fit':
        call, a, k = (lambda y, saliency: dist.ComplexWatsonTrainer().fit(y, saliency=saliency)), \
            (yc, sal), {}
    elif name == 'watson.log_pdf':
        m = dist.ComplexWatson(mode=gen.unit(gen.cnormal(rng, (*lead, D))),
                               concentration=np.asarray(rng.uniform(1, 20, size=lead)))
        call, a, k = m.log_pdf, (gen.unit(yc),), {}
    elif name == 'vmf.fit':
        call, a, k = dist.VonMisesFisherTrainer().fit, (yr,), dict(saliency=sal)
    elif name == 'vmf.log_pdf':
        m = dist.VonMisesFisher(mean=gen.unit(rng.normal(size=(*lead, D))),
                                concentration=np.asarray(rng.uniform(1, 20, size=lead)))
        call, a, k = m.log_pdf, (yr,), {}
    elif name == 'gaussian.fit':
        call, a, k = dist.GaussianTrainer().fit, (yr,), dict(
            saliency=sal, covariance_type=d.choice(['full', 'diagonal', 'spherical']))
    elif name == 'gaussian.log_pdf':
        m = dist.GaussianTrainer().fit(yr, covariance_type=d.choice(['full', 'diagonal', 'spherical']))
        call, a, k = m.log_pdf, (yr,), {}
    elif name == 'ccsg.fit':
        call, a, k = dist.ComplexCircularSymmetricGaussianTrainer().fit, (yc,), dict(saliency=sal)
    elif name == 'ccsg.log_pdf':
        m = dist.ComplexCircularSymmetricGaussian(covariance=gen.hpd(rng, D, 10, 1.0, lead))
        call, a, k = m.log_pdf, (yc,), {}
    elif name == 'bingham.fit':
        D2 = min(D, 3)
        call, a, k = (lambda y: ComplexBinghamTrainer().fit(y)), (yc[..., :D2],), {}
    elif name == 'bingham.log_pdf':
        lam = -np.sort(rng.uniform(0, 10, size=D))[::-1]
        m = ComplexBingham(gen.haar_unitary(rng, D), lam - lam.max())
        call, a, k = m.log_pdf, (gen.unit(yc),), {}
    elif name == 'psd':
        call, a, k = bf.get_power_spectral_density_matrix, (X, mask), dict(
            normalize=d.bool())
    elif name == 'psd-bool':
        call, a, k = bf.get_power_spectral_density_matrix, (X, mask > 0.5), {}
    elif name == 'pca':
        call, a, k = bf.get_pca_vector, (hx,), {}
    elif name == 'gev':
        call, a, k = bf.get_gev_vector, (hx, hp), dict(use_eig=d.bool())
    elif name == 'mvdr':
        call, a, k = bf.get_mvdr_vector, (w, hp), {}
    elif name == 'souden':
        call, a, k = bf.get_mvdr_vector_souden, (hx, hp), {}
    elif name == 'wmwf':
        call, a, k = bf.get_wmwf_vector, (hx, hp), {}
    elif name == 'lcmv':
        call, a, k = bf.get_lcmv_vector, (gen.cnormal(rng, (2, F, D)), np.array([1., 0.]), hp), {}
    elif name == 'ban':
        call, a, k = bf.blind_analytic_normalization, (w, hp), {}
    elif name == 'phase_correction':
        call, a, k = bf.phase_correction, (gen.cnormal(rng, (*lead, F, D)),), {}
    elif name == 'condition_covariance':
        call, a, k = bf.condition_covariance, (hx, 0.01), {}
    elif name == 'apply':
        call, a, k = bf.apply_beamforming_vector, (w, X), {}
    elif name == 'bf_vector':
        nm = d.choice(['pca', 'pca+mvdr', 'scaled_gev_atf+mvdr', 'mvdr_souden',
                       'rank1_pca+mvdr_souden', 'rank1_gev+mvdr_souden+ban', 'gev+ban',
                       'rank1_pca+gev', 'wmwf', 'rank1_gev+wmwf', 'ch0'])
        call, a, k = (lambda t, n: bw.get_bf_vector(nm, t, n)), (hx, hp), {}
        name = 'bf_vector:' + nm
    elif name in ('ibm', 'wiener', 'irm', 'iam', 'psm', 'icm'):
        fn = {'ibm': mk.ideal_binary_mask, 'wiener': mk.wiener_like_mask,
              'irm': mk.ideal_ratio_mask, 'iam': mk.ideal_amplitude_mask,
              'psm': mk.phase_sensitive_mask, 'icm': mk.ideal_complex_mask}[name]
        call, a, k = fn, (sig,), {}
    elif name == 'lorenz':
        call, a, k = mk.lorenz_mask, (gen.cnormal(rng, (3, 8)),), {}
    elif name == 'quantile':
        call, a, k = mk.quantile_mask, (gen.cnormal(rng, (9, 4)),), {}
    elif name in ('dhtv', 'dhtv-euclidean'):
        al = pa.DHTVPermutationAlignment(
            stft_size=2 * (F - 1), segment_start=0, segment_width=max(1, F // 2 + 1),
            segment_shift=1, main_iterations=2, sub_iterations=1,
            similarity_metric='cos' if name == 'dhtv' else d.choice(['euclidean', 'multiply']))
        call, a, k = (lambda m_: (al.calculate_mapping(m_), al(m_))), (pmask,), {}
    elif name == 'greedy':
        al = pa.GreedyPermutationAlignment(d.choice(['cos', 'euclidean']))
        call, a, k = (lambda m_: (al.calculate_mapping(m_), al(m_))), (pmask,), {}
    elif name == 'oracle':
        al = pa.OraclePermutationAlignment(d.choice(['cos', 'euclidean', 'multiply']))
        call, a, k = (lambda m_, r_: (al.calculate_mapping(m_, r_), al(m_, r_))), \
            (pmask, rng.uniform(size=pmask.shape)), {}
    elif name == 'apply_mapping':
        mp = np.stack([rng.permutation(K) for _ in range(F)], axis=1)
        call, a, k = pa.apply_mapping, (pmask, mp), {}
    elif name == 'score_mapping':
        call, a, k = pa._mapping_from_score_matrix, (rng.normal(size=(F, K, K)),), dict(
            algorithm=d.choice(['greedy', 'optimal']))
    elif name == 'inline_alignment':
        al = pa.GreedyPermutationAlignment('cos')
        aff = np.transpose(pmask, (1, 0, 2)) / pmask.sum(0)[:, None, :]
        call, a, k = (lambda aff_, q_: apply_inline_permutation_alignment(
            affiliation=aff_, quadratic_form=q_, weight_constant_axis=(-3,), aligner=al)), \
            (aff, rng.uniform(1, 2, size=aff.shape)), {}
    elif name == 'estimate_mixture_weight':
        aff = np.moveaxis(rng.dirichlet(np.ones(K), size=(*lead, N)), -1, -2)
        call, a, k = estimate_mixture_weight, (aff, d.choice([None, 1]) and sal, (-1,)), {}
    elif name == 'log_pdf_to_affiliation':
        call, a, k = log_pdf_to_affiliation, (
            np.full((K, 1), 1 / K), rng.normal(size=(K, N)) * 10), dict(
            source_activity_mask=d.choice([None, 1]) and (rng.uniform(size=(K, N)) > 0.3),
            affiliation_eps=d.choice([0., 1e-10]))
    elif name == 'si_sdr':
        call, a, k = si_sdr, (real[0], real[1]), {}
    elif name == 'input_sxr':
        call, a, k = input_sxr, (real, rng.normal(size=(D, 30))), dict(
            return_dict=d.choice([False, True, 'x_']))
    elif name == 'output_sxr':
        call, a, k = output_sxr, (rng.normal(size=(K, K + 1, 30)), rng.normal(size=(K + 1, 30))), \
            dict(average_sources=d.bool())
    elif name == 'get_snr':
        call, a, k = get_snr, (real[0], real[1]), {}
    elif name == 'set_snr':
        call, a, k = set_snr, (real[0], real[1], 10.), dict(inplace=False)
    elif name == 'init.iid':
        seed = d.int(0, 99)
        fn = getattr(iid, d.choice(['uniform_normalized', 'dirichlet_uniform', 'one_hot']))
        call, a, k = fn, (yc, K), dict(permutation_free=d.bool())
    else:
        call, a, k = deterministic.flag, (yc, K), dict(permutation_free=True,
                                                       minimum=d.choice([0, 0.1]))
    return _finish_purity(d, ctx, name, call, a, k, seed, D, N, F, K, lead)


def _finish_purity(d, ctx, name, call, a, k, seed, D, N, F, K, lead):
    variant = d.choice(['as-is', 'as-is', 'as-is', 'real-valued', 'single-precision'])
    if variant != 'as-is':
        def conv(x):
            if isinstance(x, np.ndarray) and np.iscomplexobj(x):
                return np.ascontiguousarray(x.real) if variant == 'real-valued' \
                    else x.astype(np.complex64)
            if isinstance(x, np.ndarray) and x.dtype == np.float64 and \
                    variant == 'single-precision':
                return x.astype(np.float32)
            if isinstance(x, tuple):
                return tuple(conv(v) for v in x)
            if isinstance(x, dict):
                return {kk: conv(v) for kk, v in x.items()}
            return x
        a, k = conv(a), conv(k)
    ctx.describe(entry=name, D=D, N=N, F=F, K=K, lead=lead, variant=variant)
    ctx.label(name.split(':')[0], variant)
    c = pure_call(ctx, name, call, a, k, np_seed=seed)
    ctx.nontrivial(has_array(c))


# ---------------------------------------------------------------------------
# Part A' - purity at every call site of the other property modules
# ---------------------------------------------------------------------------
# Every check of C01..C19 reaches the library through ``ctx.lib``.  Here the
# generators of those checks are reused (arbitrary valid arguments: every
# option, layout, dtype and degenerate family they draw) and only the purity
# protocol is judged: the call is made once as the host wrote it and once with
# every reachable array read-only; bytes of all arrays before == after, the
# second call is accepted and reproduces the first result exactly.  Verdicts of
# the host's own clauses belong to the host's property and are ignored here.

class PurityViolation(Violation):
    pass


class PurityCtx:
    """stands in for core.Ctx while a host sub-check runs"""

    def __init__(self, real, host):
        self.real = real
        real.value_protocol = False      # this context runs its own, on every call
        self.host = host
        self.calls = 0
        self.array_calls = 0
        self.entries = set()

    def label(self, *a):
        pass

    def nontrivial(self, flag=True):
        pass

    def describe(self, **kw):
        pass

    def keep(self, **kw):
        pass

    def _arrays_of(self, fn, args, kwargs):
        passed, seen = [], set()
        _reachable_arrays(args, passed, seen)
        _reachable_arrays(kwargs, passed, seen)
        # host side closures: the arrays the lambda hands over
        for cell in (getattr(fn, '__closure__', None) or ()):
            try:
                _reachable_arrays(cell.cell_contents, passed, seen)
            except ValueError:
                pass
        receiver = []
        self_obj = getattr(fn, '__self__', None)
        if self_obj is not None and not isinstance(self_obj, type):
            _reachable_arrays(self_obj, receiver, seen)
        return passed, receiver

    def lib(self, fn, *args, allow=(), allow_if=None, clause='raises', **kwargs):
        from pbv.core import Ctx
        self.calls += 1
        name = _entry_name(fn)
        exempt = getattr(fn, '__name__', '') == 'set_snr' and kwargs.get('inplace', True)
        passed, receiver = self._arrays_of(fn, args, kwargs)
        if exempt or not (passed or receiver):
            return Ctx.lib(self.real, fn, *args, allow=allow, allow_if=allow_if,
                           clause=clause, **kwargs)
        self.array_calls += 1
        self.entries.add(name)
        before = [(a, a.tobytes(), a.shape, a.dtype, a.flags.writeable)
                  for a in passed + receiver]
        n_passed = len(passed)

        def unchanged(stage):
            for i, (a, b, shape, dtype, _) in enumerate(before):
                if not (a.shape == shape and a.dtype == dtype and a.tobytes() == b):
                    raise PurityViolation(
                        'argument-modified' if i < n_passed else
                        'receiver-parameters-modified',
                        f'{name} ({stage}; host {self.host})', entry=name)

        state = np.random.get_state()
        # first call exactly as the host wrote it (host semantics for refusals)
        r1 = Ctx.lib(self.real, fn, *args, allow=allow, allow_if=allow_if,
                     clause=clause, **kwargs)
        unchanged('writable arguments')
        snapshot = _fresh(canon(r1), {})
        after_state = np.random.get_state()
        np.random.set_state(state)
        for a, *_, w in before:
            if w:
                a.setflags(write=False)
        # the repeated call is not reported to the host's in-loop observers
        import pb_bss._verif as hook
        hook_enabled, hook.ENABLED = hook.ENABLED, False
        try:
            try:
                r2 = fn(*args, **kwargs)
            except Exception as e:  # noqa
                raise PurityViolation(
                    'read-only-argument-rejected',
                    f'{name}: {type(e).__name__}: {str(e)[:160]} (host {self.host})',
                    entry=name)
        finally:
            hook.ENABLED = hook_enabled
            for a, *_, w in before:
                if w:
                    a.setflags(write=True)
            np.random.set_state(after_state)
        unchanged('read-only arguments')
        if not same(canon(r1), canon(r2)):
            raise PurityViolation('repeated-call-differs',
                                  f'{name} (host {self.host})', entry=name)
        if self.array_calls % 2 == 0:
            self._refilled_buffer(fn, args, kwargs, before[:n_passed], state, name)
            np.random.set_state(after_state)
        # what the first call returned is the caller's: later calls (with the
        # same or other content) must not have changed it
        if not same(canon(r1), snapshot):
            raise PurityViolation('earlier-result-changed-by-a-later-call',
                                  f'{name} (host {self.host})', entry=name)
        return r1

    def _refilled_buffer(self, fn, args, kwargs, passed, state, name):
        arrays = [a for a, _, _, _, w in passed if w]
        detail = _refilled_buffer_protocol(fn, args, kwargs, arrays, state,
                                           self.array_calls // 2)
        if detail is None:
            return
        self.refilled = getattr(self, 'refilled', 0) + 1
        if detail:
            raise PurityViolation('result-depends-on-array-identity-not-content',
                                  f'{name}: {detail} (host {self.host})', entry=name)


_HOSTS = None


def _hosts():
    global _HOSTS
    if _HOSTS is None:
        import importlib
        _HOSTS = []
        for i in range(1, 20):
            mod = importlib.import_module(f'pbv.props.c{i:02d}')
            for sc in mod.SUBCHECKS:
                if getattr(sc, 'machine', None) is not None:
                    continue
                if (sc.quick or 0) <= 0 and (sc.thorough or 0) <= 0:
                    continue      # exhaustive-only enumerations
                _HOSTS.append((f'C{i:02d}', sc))
    return _HOSTS


_HOST_TABLE = None


def _host_table():
    """every property gets the same share; inside a property a sub-check's
    share (of 60 slots) grows with the square root of its own quick budget.
    Two small ranges are drawn instead of one large one: Hypothesis draws small
    integer ranges nearly uniformly, large ones with a bias to small values."""
    global _HOST_TABLE
    if _HOST_TABLE is None:
        hosts = _hosts()
        table = []
        for pid in sorted({p for p, _ in hosts}):
            mine = [sc for p, sc in hosts if p == pid]
            w = [max(1.0, float(sc.quick or 1)) ** 0.5 for sc in mine]
            slots = []
            for sc, wi in zip(mine, w):
                slots += [sc] * max(1, int(round(60 * wi / sum(w))))
            table.append((pid, slots))
        _HOST_TABLE = table
    return _HOST_TABLE


@subcheck(SUBCHECKS, 'purity_at_call_sites', quick=2400, thorough=40000,
          shards_quick=16, shards_thorough=16)
def purity_at_call_sites(d, ctx):
    table = _host_table()
    pid, slots = table[d.int(0, len(table) - 1)]
    sc = slots[d.int(0, len(slots) - 1)]
    host = f'{pid}.{sc.name}'
    pctx = PurityCtx(ctx, host)
    verdict = 'host-ok'
    try:
        sc.fn(d, pctx)
    except PurityViolation:
        raise
    except Violation:
        verdict = 'host-violation-not-judged-here'
    except Rejected:
        verdict = 'host-rejected'
    except Borderline:
        verdict = 'host-borderline'
    ctx.describe(host=host, library_calls=pctx.calls,
                 calls_with_arrays=pctx.array_calls,
                 entries=sorted(pctx.entries)[:12], host_verdict=verdict)
    ctx.label('host=' + pid, verdict)
    if getattr(pctx, 'refilled', 0):
        ctx.label('refilled-buffer-protocol')
    ctx.nontrivial(pctx.array_calls > 0)


# ---------------------------------------------------------------------------
# Part A'' - history freedom at every call site of the other property modules
# ---------------------------------------------------------------------------
# "Results are a function of the arguments and the NumPy seed only": the host
# sub-checks of C01..C19 are reused once more.  In a pristine copy of the
# library (pbv.freshlib: module-level tables, class attributes and memoised
# functions as in a new interpreter) one or two drawn hosts run first - the
# history: other trainers, options, dimensions, dtypes - and then the final
# host; in a second pristine copy the final host runs alone with the same
# choices.  Every library call of the final host must return the same in both.

class _SubDraw(__import__('pbv.core', fromlist=['_DrawBase'])._DrawBase):
    """draws through the parent (which records them for the replay of the
    whole case) and keeps the own list, from which the final host is re-run"""

    def __init__(self, parent):
        super().__init__()
        self._p = parent

    def _int(self, lo, hi):
        return self._p.int(lo, hi)

    def _float(self, lo, hi):
        return self._p.float(lo, hi)

    def _ints(self, n, hi):
        return self._p.ints(n, hi)

    def seed(self):
        v = self._p.seed()
        self.choices.append(['s', int(v), 0])
        return int(v)


class _RecordingCtx:
    """stands in for core.Ctx: records what every library call returned"""

    def __init__(self, d):
        from pbv.core import Ctx
        self.real = Ctx(d)
        self.real.value_protocol = False
        self.trace = []

    def label(self, *a):
        pass

    def nontrivial(self, flag=True):
        pass

    def describe(self, **kw):
        pass

    def keep(self, **kw):
        pass

    def lib(self, fn, *args, allow=(), allow_if=None, clause='raises', **kwargs):
        from pbv.core import Ctx
        name = _entry_name(fn)
        try:
            r = Ctx.lib(self.real, fn, *args, allow=allow, allow_if=allow_if,
                        clause=clause, **kwargs)
        except (Violation, Rejected, Borderline) as e:
            self.trace.append((name, ['raises', type(e).__name__]))
            raise
        self.trace.append((name, _fresh(canon(r), {})))
        return r


def _run_host(sc, d, rec):
    try:
        sc.fn(d, rec)
        return 'ok'
    except Violation:
        return 'violation'
    except Rejected:
        return 'rejected'
    except Borderline:
        return 'borderline'


def _max_rel_dev(a, b):
    """largest deviation of two canonical results relative to the magnitude of
    the array it occurs in; None when they differ in structure"""
    if isinstance(a, dict):
        if not (isinstance(b, dict) and a.keys() == b.keys()):
            return None
        devs = [_max_rel_dev(a[k], b[k]) for k in a]
    elif isinstance(a, list):
        if not (isinstance(b, list) and len(a) == len(b)):
            return None
        devs = [_max_rel_dev(x, y) for x, y in zip(a, b)]
    elif isinstance(a, np.ndarray) or isinstance(b, np.ndarray):
        x, y = np.asarray(a), np.asarray(b)
        if x.shape != y.shape or x.dtype != y.dtype:
            return None
        if x.dtype.kind not in 'fc':
            return 0.0 if np.array_equal(x, y) else None
        fin = np.isfinite(x) & np.isfinite(y)
        if not np.array_equal(np.isfinite(x), np.isfinite(y)) or \
                not np.array_equal(x[~fin], y[~fin], equal_nan=True):
            return None
        if not fin.any():
            return 0.0
        scale = max(float(np.max(np.abs(x[fin]))), float(np.max(np.abs(y[fin]))), 1e-300)
        return float(np.max(np.abs(x[fin] - y[fin]))) / scale
    elif isinstance(a, (float, complex, np.floating, np.complexfloating)) and \
            isinstance(b, (float, complex, np.floating, np.complexfloating)):
        if a != a and b != b:
            return 0.0
        if not (np.isfinite(a) and np.isfinite(b)):
            return 0.0 if a == b else None
        return abs(a - b) / max(abs(a), abs(b), 1e-300)
    else:
        return 0.0 if a == b else None
    if any(v is None for v in devs):
        return None
    return max(devs, default=0.0)


@subcheck(SUBCHECKS, 'history_at_call_sites', quick=480, thorough=8000,
          shards_quick=16, shards_thorough=16)
def history_at_call_sites(d, ctx):
    from pbv.core import ReplayDraw
    from pbv.freshlib import pristine_library
    table = _host_table()

    def pick():
        pid, slots = table[d.int(0, len(table) - 1)]
        return pid, slots[d.int(0, len(slots) - 1)]

    fpid, fsc = pick()
    hist = []
    for _ in range(d.int(1, 2)):
        # the history is made of the final host itself with other draws (same
        # entry points, other options / sizes / dtypes) or of any other host
        hist.append((fpid, fsc) if d.int(0, 2) > 0 else pick())
    state = np.random.get_state()
    with pristine_library():
        for _, sc in hist:
            _run_host(sc, _SubDraw(d), _RecordingCtx(d))
        sub = _SubDraw(d)
        rec_a = _RecordingCtx(sub)
        np.random.seed(0)
        verdict_a = _run_host(fsc, sub, rec_a)
    with pristine_library():
        rep = ReplayDraw(sub.choices)
        rec_b = _RecordingCtx(rep)
        np.random.seed(0)
        verdict_b = _run_host(fsc, rep, rec_b)
    np.random.set_state(state)
    host = f'{fpid}.{fsc.name}'
    ctx.describe(final=host, history=[f'{p}.{s.name}' for p, s in hist],
                 library_calls=len(rec_b.trace), host_verdict=verdict_b)
    ctx.label('host=' + fpid, 'same-host-history' if any(s is fsc for _, s in hist)
              else 'other-host-history')
    worst = 0.0
    for i, (xb, xa) in enumerate(zip(rec_b.trace, rec_a.trace)):
        (nb, rb), (na, ra) = xb, xa
        dev = _max_rel_dev(rb, ra) if nb == na else None
        if dev is None or dev > 1e-6:
            raise Violation(
                'result-depends-on-what-ran-before',
                f'call {i} of {host} ({nb}): after the history '
                f'{[f"{p}.{s.name}" for p, s in hist]} the result differs from that '
                f'of a pristine library (' +
                ('structure / exception' if dev is None else f'relative deviation {dev:.2e}')
                + ')', entry=nb)
        worst = max(worst, dev)
    require(len(rec_a.trace) == len(rec_b.trace) and verdict_a == verdict_b,
            'result-depends-on-what-ran-before',
            f'{host}: {len(rec_a.trace)} calls / {verdict_a} after the history, '
            f'{len(rec_b.trace)} calls / {verdict_b} in a pristine library')
    if worst > 0:
        # not bit-identical but at rounding level (kernels that depend on the
        # address of a buffer): not judged
        ctx.label('rounding-level-difference')
    ctx.nontrivial(len(rec_b.trace) > 0)


# ---------------------------------------------------------------------------
# Part B - history freedom (Hypothesis stateful)
# ---------------------------------------------------------------------------

CACHED_DIMENSION = ('cwmm', 'cbmm', 'watson', 'bingham')
MACHINE_KINDS = ['cacgmm', 'cwmm', 'cbmm', 'gmm', 'vmfmm', 'gcacgmm', 'vmfcacgmm',
                 'watson', 'bingham']


def _single_trainer(kind, kwargs):
    import pb_bss.distribution as dist
    from pb_bss.distribution.complex_bingham import ComplexBinghamTrainer
    return {'watson': dist.ComplexWatsonTrainer,
            'bingham': ComplexBinghamTrainer}[kind](**kwargs)


def make_trainer(kind, kwargs):
    if kind in ('watson', 'bingham'):
        return _single_trainer(kind, kwargs)
    return mm.trainer_cls(kind)(**kwargs)


def step_case(kind, step):
    """deterministic reconstruction of the fit described by a step"""
    rng = np.random.default_rng(step['seed'])
    D, K, N = step['D'], step['K'], step['N']
    if kind in ('watson', 'bingham'):
        y = gen.cnormal(rng, (N, D)) + 2 * gen.unit(gen.cnormal(rng, (1, D)))
        if step.get('concentrated'):
            y = gen.unit(gen.cnormal(rng, (1, D))) * gen.cnormal(rng, (N, 1)) + \
                0.05 * gen.cnormal(rng, (N, D))
        sal = rng.uniform(0.5, 2, size=N) if step['saliency'] else None
        return dict(y=y, saliency=sal)
    lead = (step['F'],) if (kind in mm.INTEGRATION or step.get('F')) else ()
    case = mm.Case(kind=kind, lead=lead, K=K, D=D, N=N, iterations=step['iterations'])
    complex_ = not mm.real_kind(kind)
    case.y, labels = mm.cluster_data(rng, lead, K, N, D, complex_,
                                     0.05 if step.get('concentrated') else 0.5)
    if kind in mm.INTEGRATION:
        case.E = 3
        case.emb = rng.normal(size=(*lead, N, 3)) + labels[..., None]
    case.init = np.moveaxis(rng.dirichlet(np.ones(K), size=(*lead, N)), -1, -2)
    o = {}
    if step['saliency']:
        o['saliency'] = rng.uniform(0.5, 2, size=(*lead, N))
    if step.get('wca') is not None:
        o['weight_constant_axis'] = tuple(step['wca']) if isinstance(step['wca'], list) \
            else step['wca']
    if kind in ('cacgmm', 'gcacgmm', 'vmfcacgmm') and step.get('norm') is not None:
        o['covariance_norm'] = step['norm']
    if kind == 'gmm' and step.get('ctype'):
        o['covariance_type'] = step['ctype']
    if kind == 'cacgmm' and step.get('mask'):
        # source activity mask: every frame keeps an active class, every class
        # is active somewhere
        m = rng.uniform(size=(*lead, K, N)) > 0.3
        m[..., 0, :] |= ~m.any(axis=-2)
        m[..., :, 0] = True
        o['source_activity_mask'] = m
    if kind == 'cacgmm' and step.get('aff_eps'):
        o['affiliation_eps'] = step['aff_eps']
    if kind == 'cacgmm' and step.get('floor') is not None:
        o['eigenvalue_floor'] = step['floor']
    if kind == 'cacgmm' and step.get('hermitize') is False:
        o['hermitize'] = False
    if step.get('aligner') and kind in mm.COMPLEX_KINDS and lead and lead[0] % 2 == 1:
        import pb_bss.permutation_alignment as pa
        o['inline_permutation_aligner'] = pa.GreedyPermutationAlignment('cos')
        o['weight_constant_axis'] = (-3,)
        # a scene with a frequency permutation problem: common activity over
        # time, class order of the (blurred) start scrambled per frequency
        F = lead[0]
        lab = rng.permutation(np.arange(N) % K)
        protos = gen.unit(gen.cnormal(rng, (F, K, D)))
        case.y = protos[:, lab, :] * gen.cnormal(rng, (F, N, 1)) + \
            0.1 * gen.cnormal(rng, (F, N, D))
        onehot = (lab[None, :] == np.arange(K)[:, None]).astype(float)
        soft = 0.8 * onehot + 0.2 * (1 - onehot) / max(K - 1, 1)
        case.init = np.stack([soft[rng.permutation(K)] for _ in range(F)])
    case.opts = o
    return case


def _through_buffer(buffers, key, arr, refill):
    """the array object the long-lived trainer was given in the previous step,
    refilled in place with the new content (a caller's block buffer) - or the
    new array, remembered for the next step"""
    if not isinstance(arr, np.ndarray):
        return arr
    old = buffers.get(key)
    if refill and old is not None and old.shape == arr.shape and old.dtype == arr.dtype:
        old[...] = arr
        return old
    buffers[key] = arr
    return arr


def run_step(kind, trainer, step, buffers=None):
    refill = bool(step.get('refill'))
    if kind in ('watson', 'bingham'):
        kw = step_case(kind, step)
        if buffers is not None:
            kw = {k: _through_buffer(buffers, k, v, refill) for k, v in kw.items()}
        return trainer.fit(**kw)
    case = step_case(kind, step)
    if buffers is not None:
        case.y = _through_buffer(buffers, 'y', case.y, refill)
        if case.emb is not None:
            case.emb = _through_buffer(buffers, 'emb', case.emb, refill)
        case.init = _through_buffer(buffers, 'init', case.init, refill)
        if case.opts.get('saliency') is not None:
            case.opts['saliency'] = _through_buffer(buffers, 'saliency',
                                                    case.opts['saliency'], refill)
    return mm.fit(case, trainer=trainer)


class History:
    """a long-lived trainer and the model of it (= a fresh trainer per call)"""

    def __init__(self, kind, trainer_kwargs):
        self.kind = kind
        self.trainer_kwargs = trainer_kwargs
        self.trainer = make_trainer(kind, trainer_kwargs)
        self.dimension = None
        self.log = []
        self.buffers = {}

    def apply(self, step):
        self.log.append(step)
        kind = self.kind
        if step['op'] == 'split_fit':
            return self.split_fit(step)
        fresh = make_trainer(kind, self.trainer_kwargs)
        wrong_dim = kind in CACHED_DIMENSION and self.dimension is not None \
            and step['D'] != self.dimension
        if wrong_dim:
            try:
                run_step(kind, self.trainer, step)
            except AssertionError:
                return 'rejected-wrong-dimension'
            except Exception as e:  # noqa
                raise Violation('wrong-dimension-not-rejected-explicitly',
                                f'{kind}: {type(e).__name__}: {str(e)[:100]}', kind=kind)
            raise Violation('reused-trainer-accepts-other-dimension',
                            f'{kind}: trained with D={self.dimension}, then fitted '
                            f'D={step["D"]} without complaint', kind=kind)
        try:
            expected = canon(run_step(kind, fresh, step))
        except Exception as e:  # noqa
            expected = ('raises', type(e).__name__)
        try:
            got = canon(run_step(kind, self.trainer, step, buffers=self.buffers))
        except Exception as e:  # noqa
            got = ('raises', type(e).__name__)
        if kind in CACHED_DIMENSION and self.dimension is None and \
                not (isinstance(got, tuple) and got[0] == 'raises'):
            self.dimension = step['D']
        if not same(expected, got):
            raise Violation('reused-trainer-differs-from-fresh-trainer',
                            f'{kind}: step {len(self.log)} of the history '
                            f'{[s["op"] for s in self.log]}', kind=kind)
        return 'ok'

    def split_fit(self, step):
        """cACGMM: n iterations == consecutive fits continued from the model"""
        case = step_case('cacgmm', step)
        parts = step['parts']
        n = sum(parts)
        single = mm.fit(case, trainer=make_trainer('cacgmm', {}), iterations=n)
        model = None
        for i, p in enumerate(parts):
            tr = self.trainer if step.get('reuse') else make_trainer('cacgmm', {})
            model = mm.fit(case, trainer=tr, iterations=p,
                           init=model if model is not None else None)
        a, b = mm.params(single, case), mm.params(model, case)
        for key in a:
            if not (a[key].shape == b[key].shape and
                    np.allclose(a[key], b[key], rtol=1e-12, atol=1e-14)):
                raise Violation(
                    'split-fit-differs-from-single-fit',
                    f'n={n} parts={parts} {key}: max diff '
                    f'{np.max(np.abs(a[key] - b[key])):.3e} '
                    f'(aligner={bool(step.get("aligner"))})', kind='cacgmm')
        return 'ok'


def replay_steps(kind, trainer_kwargs, steps):
    h = History(kind, trainer_kwargs)
    for s in steps:
        h.apply(s)
    return h


def _machine_task(kind, seed_value, n_examples, tier):
    """run one rule-based state machine; returns a dict for the runner"""
    import hypothesis
    from hypothesis import HealthCheck, Phase, settings
    from hypothesis import strategies as st
    from hypothesis.stateful import (RuleBasedStateMachine, initialize, invariant,
                                     precondition, rule, run_state_machine_as_test)
    stats = dict(evaluations=0, nontrivial=set(), labels={}, samples=[], steps=0)
    last = {}
    small_D = kind in ('cbmm', 'bingham')
    dims = st.integers(2, 3) if small_D else st.integers(2, 5)

    def lab(name):
        stats['labels'][name] = stats['labels'].get(name, 0) + 1

    class Machine(RuleBasedStateMachine):
        def __init__(self):
            super().__init__()
            self.h = None
            self.prev = None

        @initialize(mc=st.sampled_from([None, 100, 20]))
        def start(self, mc):
            kw = {}
            if mc is not None and kind in ('cwmm', 'watson'):
                kw['max_concentration'] = mc
            self.h = History(kind, kw)

        def _step(self, op, seed, D, K, extra, same_data=False):
            N = 2 * K * D + 6
            step = dict(op=op, seed=seed, D=D, K=K, N=N, **extra)
            if same_data and self.prev is not None:
                step = dict(self.prev, **{k: v for k, v in extra.items()
                                          if k in ('iterations', 'saliency', 'wca', 'norm', 'ctype')})
                step['op'] = 'refit_same_data'
            out = self.h.apply(step)
            if out == 'ok':
                self.prev = step
            lab(step['op'] if out == 'ok' else out)

        @rule(seed=st.integers(0, 10 ** 6), D=dims, K=st.integers(1 if kind != 'cacgmm' else 2, 3),
              iterations=st.integers(1, 3), saliency=st.booleans(),
              wca=st.sampled_from([None, -1, [-1], -2]),
              norm=st.sampled_from([None, 'eigenvalue', 'trace', False]),
              ctype=st.sampled_from([None, 'full', 'diagonal', 'spherical']),
              F=st.sampled_from([None, 1, 3]), aligner=st.booleans(),
              same=st.booleans())
        def fit(self, seed, D, K, iterations, saliency, wca, norm, ctype, F, aligner, same):
            if self.h.dimension is not None and kind in CACHED_DIMENSION:
                D = self.h.dimension
            extra = dict(iterations=iterations, saliency=saliency, wca=wca, norm=norm,
                         ctype=ctype, F=F if kind not in mm.INTEGRATION else (F or 2),
                         aligner=aligner)
            self._step('fit', seed, D, K, extra, same_data=same)

        @precondition(lambda self: self.h is not None and self.prev is not None)
        @rule(seed=st.integers(0, 10 ** 6))
        def refit_refilled_buffer(self, seed):
            """the caller refills the arrays of the previous fit in place (a
            block buffer) and fits again with the same objects"""
            step = dict(self.prev, seed=seed, op='refit_refilled_buffer', refill=True)
            out = self.h.apply(step)
            if out == 'ok':
                self.prev = step
            lab(step['op'] if out == 'ok' else out)

        @precondition(lambda self: self.h is not None and kind in CACHED_DIMENSION
                      and self.h.dimension is not None)
        @rule(seed=st.integers(0, 10 ** 6), delta=st.sampled_from([-1, 1, 2]))
        def fit_wrong_dimension(self, seed, delta):
            D = max(2, self.h.dimension + delta)
            if D == self.h.dimension:
                D += 1
            extra = dict(iterations=1, saliency=False, wca=None, norm=None, ctype=None,
                         F=None, aligner=False)
            self._step('fit_wrong_dimension', seed, D, 2, extra)

        @precondition(lambda self: kind == 'cacgmm')
        @rule(seed=st.integers(0, 10 ** 6), D=st.integers(2, 4), K=st.integers(2, 3),
              parts=st.lists(st.integers(1, 7), min_size=2, max_size=5).filter(
                  lambda p: sum(p) <= 20),
              aligner=st.booleans(), reuse=st.booleans(), saliency=st.booleans(),
              norm=st.sampled_from([None, 'trace', False]), mask=st.booleans(),
              aff_eps=st.sampled_from([0, 0, 1e-6]), wca=st.sampled_from([None, [-1], -1]),
              floor=st.sampled_from([None, None, 1e-3, 0.1]),
              hermitize=st.sampled_from([True, True, False]),
              F=st.sampled_from([None, None, 1, 2]))
        def split_fit(self, seed, D, K, parts, aligner, reuse, saliency, norm, mask,
                      aff_eps, wca, floor, hermitize, F):
            step = dict(op='split_fit', seed=seed, D=D, K=K, N=4 * K * D, parts=parts,
                        iterations=1, saliency=saliency, wca=wca, norm=norm, ctype=None,
                        F=3 if aligner else F, aligner=aligner, reuse=reuse,
                        mask=mask and not aligner, aff_eps=aff_eps, floor=floor,
                        hermitize=hermitize)
            self.h.apply(step)
            lab(f'split_into_{min(len(parts), 4)}')

        def teardown(self):
            if self.h is None:
                return
            log = self.h.log
            stats['evaluations'] += 1
            stats['steps'] += len(log)
            ops = [s['op'] for s in log]
            nontrivial = (len(log) >= 2 and len({json.dumps(s, sort_keys=True, default=str)
                                                 for s in log}) >= 2) or any(
                s['op'] == 'split_fit' and len(s['parts']) >= 2 for s in log)
            if nontrivial:
                stats['nontrivial'].add(digest_choices(
                    json.loads(json.dumps(log, default=str))))
            if len(stats['samples']) < 2 and nontrivial:
                stats['samples'].append(dict(subcheck=f'history_{kind}', history=[
                    {k: s[k] for k in ('op', 'D', 'K', 'iterations') if k in s}
                    | ({'parts': s['parts']} if 'parts' in s else {}) for s in log]))
            last['log'] = list(log)
            last['kwargs'] = dict(self.h.trainer_kwargs)

    phases = [Phase.generate] if tier == 'quick' else [Phase.generate, Phase.shrink]
    # the shrink phase is wanted in both tiers for histories: it is cheap here
    phases = [Phase.generate, Phase.shrink]
    st_settings = settings(max_examples=n_examples, stateful_step_count=6, deadline=None,
                           database=None, report_multiple_bugs=False, derandomize=False,
                           phases=phases, suppress_health_check=list(HealthCheck),
                           print_blob=False)
    violation = None
    try:
        run_state_machine_as_test(hypothesis.seed(seed_value)(Machine), settings=st_settings)
    except Violation as v:
        violation = dict(clause=v.clause, detail=v.detail, attrs=v.attrs,
                         steps=last.get('log', []), trainer_kwargs=last.get('kwargs', {}))
    stats['violation'] = violation
    return stats


def _make_machine(kind, quick, thorough):
    def fn(d, ctx, _kind=kind):
        """replay entry: the choices encode nothing, histories are replayed
        from the 'steps' of the replay file (see runner.do_replay)"""
        raise Borderline('machine sub-check: replay through steps')

    sc = subcheck(SUBCHECKS, f'history_{kind}', quick=quick, thorough=thorough,
                  shards_quick=1, shards_thorough=2)(fn)
    SUBCHECKS[-1].machine = lambda seed, n, tier, _k=kind: _machine_task(_k, seed, n, tier)
    SUBCHECKS[-1].replay_steps = lambda steps, kw, _k=kind: replay_steps(_k, kw, steps)
    return sc


for _kind, _q, _t in (('cacgmm', 60, 800), ('cwmm', 20, 350), ('cbmm', 6, 60),
                      ('gmm', 20, 350), ('vmfmm', 20, 350), ('gcacgmm', 14, 250),
                      ('vmfcacgmm', 14, 250), ('watson', 20, 350), ('bingham', 6, 60)):
    _make_machine(_kind, _q, _t)


# exhaustive: every composition of n <= 6 iterations
def _compositions(tier):
    for n in range(1, 7):
        for bits in itertools.product([0, 1], repeat=n - 1):
            parts, cur = [], 1
            for b in bits:
                if b:
                    parts.append(cur)
                    cur = 1
                else:
                    cur += 1
            parts.append(cur)
            for aligner in (0, 1):
                yield [['i', len(parts), 1], ['a', [p - 1 for p in parts], 0],
                       ['i', aligner, 0], ['s', 100 * n + sum(bits), 0]]


@subcheck(SUBCHECKS, 'split_fit_exhaustive', quick=0, thorough=0, shards_quick=8,
          shards_thorough=8, exhaustive=_compositions)
def split_fit_exhaustive(d, ctx):
    n_parts = d.int(1, 6)
    parts = [p + 1 for p in d.ints(n_parts, 5)]
    aligner = d.bool()
    seed = d.seed()
    # the enumeration fixes the choices above; the options below are derived
    # from the seed so that the enumerated splits also meet masks / clipping
    opt = np.random.default_rng(seed).integers(0, 4)
    step = dict(op='split_fit', seed=seed, D=3, K=2, N=24, parts=parts, iterations=1,
                saliency=bool(opt == 1), wca=None, norm=None, ctype=None,
                F=3 if aligner else None, aligner=aligner, reuse=False,
                mask=bool(opt == 2 and not aligner), aff_eps=1e-6 if opt == 3 else 0)
    ctx.describe(parts=parts, aligner=aligner, option=int(opt))
    h = History('cacgmm', {})
    h.apply(step)
    ctx.nontrivial(len(parts) >= 2)
    ctx.label(f'n={sum(parts)}', f'parts={len(parts)}')


@subcheck(SUBCHECKS, 'split_fit_generated', quick=300, thorough=5000)
def split_fit_generated(d, ctx):
    """the split law over the full option space of the shared cACGMM
    generator (tying, masks, saliency, clipping, floors, norms, aligners,
    degenerate data, random start)"""
    case = mm.draw_case(d, ['cacgmm'], degenerate=True, max_N=30, max_K=3,
                        max_iterations=1)
    n_parts = d.int(1, 4)
    parts = [1 + p for p in d.ints(n_parts, 3)]
    n = sum(parts)
    ctx.describe(parts=parts, **case.describe())
    ctx.label(f'parts={n_parts}', 'aligner' if case.opts.get(
        'inline_permutation_aligner') is not None else 'no-aligner',
        'mask' if case.opts.get('source_activity_mask') is not None else 'no-mask')
    try:
        single = mm.fit(case, iterations=n)
    except Exception as e:  # noqa
        raise Rejected(f'{type(e).__name__}: {str(e)[:60]}')
    model = None
    for p in parts:
        try:
            model = mm.fit(case, iterations=p, init=model)
        except Exception as e:  # noqa
            raise Violation('continued-fit-raises-where-single-fit-does-not',
                            f'parts={parts}: {type(e).__name__}: {str(e)[:120]}')
    a, b = mm.params(single, case), mm.params(model, case)
    for key in a:
        fin = np.isfinite(a[key]).all() and np.isfinite(b[key]).all()
        if not fin:
            raise Borderline('non-finite parameters (C01/C09 judge those)')
        if not (a[key].shape == b[key].shape and
                np.allclose(a[key], b[key], rtol=1e-10, atol=1e-12)):
            raise Violation('split-fit-differs-from-single-fit',
                            f'n={n} parts={parts} {key}: max diff '
                            f'{np.max(np.abs(a[key] - b[key])):.3e}', kind='cacgmm')
    ctx.nontrivial(n_parts >= 2)


def _trainer_kwargs(d, kind, D):
    kw = {}
    if kind in ('watson', 'cwmm'):
        mc = d.choice([None, 500, 100, 20, 5, 1000])
        if mc:
            kw['max_concentration'] = mc
        sm = d.choice([None, None, 1000, 300, 50, 2000])
        if sm:
            kw['spline_markers'] = sm
        if d.int(0, 3) == 0:
            kw['dimension'] = D
    if kind in ('bingham', 'cbmm'):
        mc = d.choice([None, 500.0, 100.0])
        if mc:
            kw['max_concentration'] = mc
        if kind == 'cbmm' and d.int(0, 2) == 0:
            kw['eigenvalue_eps'] = d.choice([1e-8, 1e-6])
    return kw


@subcheck(SUBCHECKS, 'fresh_library_trainers', quick=400, thorough=6000)
def fresh_library_trainers(d, ctx):
    """a trainer built with any constructor arguments gives, after other
    trainer objects (of the same or a related class, with the same or other
    constructor arguments and feature dimension) have been built and used, what
    it gives in a pristine copy of the library (pbv.freshlib)."""
    from pbv.freshlib import pristine_library
    family = d.choice(['watson', 'watson', 'bingham', 'plain'])
    kinds = {'watson': ['watson', 'cwmm'], 'bingham': ['bingham', 'cbmm'],
             'plain': ['cacgmm', 'gmm', 'vmfmm', 'gcacgmm', 'vmfcacgmm']}[family]
    D = d.int(2, 4) if family != 'bingham' else d.int(2, 3)

    def draw_step(kind, D_, conc):
        K = 2
        return dict(op='fit', seed=d.int(0, 10 ** 6), D=D_, K=K, N=4 * D_ + 8,
                    iterations=d.int(1, 2 if family == 'bingham' else 3),
                    saliency=d.bool(), wca=None, norm=None, ctype=None,
                    F=3 if kind in mm.INTEGRATION else None, aligner=False,
                    concentrated=conc)

    history = []
    for _ in range(d.int(1, 3)):
        hk = d.choice(kinds)
        hD = D if d.int(0, 2) > 0 else d.int(2, 3 if family == 'bingham' else 5)
        history.append((hk, _trainer_kwargs(d, hk, hD), draw_step(hk, hD, d.bool())))
    fk = d.choice(kinds)
    final_kw = _trainer_kwargs(d, fk, D)
    final = draw_step(fk, D, d.bool())

    def run(kind, kw, st_):
        np.random.seed(st_['seed'] % 2 ** 31)
        try:
            return canon(run_step(kind, make_trainer(kind, kw), st_))
        except Exception as e:  # noqa
            return ['raises', type(e).__name__]

    state = np.random.get_state()
    with pristine_library():
        for hk, kw, st_ in history:
            run(hk, kw, st_)
        after = run(fk, final_kw, final)
    with pristine_library():
        alone = run(fk, final_kw, final)
    np.random.set_state(state)
    ctx.describe(final=[fk, final_kw, final['D']],
                 history=[[hk, kw, st_['D']] for hk, kw, st_ in history])
    ctx.label(fk, f'history={len(history)}',
              'same-class-in-history' if any(hk == fk for hk, _, _ in history) else
              'related-class-in-history')
    dev = _max_rel_dev(alone, after)
    if dev is None or dev > 1e-6:
        raise Violation(
            'result-depends-on-what-ran-before',
            f'{fk}({final_kw}) D={D} after {[[hk, kw, st_["D"]] for hk, kw, st_ in history]}: '
            + ('structure / exception differs' if dev is None else f'relative deviation {dev:.2e}'),
            kind=fk)
    if dev > 0:
        ctx.label('rounding-level-difference')
    ctx.nontrivial(not (isinstance(alone, list) and alone[:1] == ['raises']))


@subcheck(SUBCHECKS, 'fresh_process_agreement', quick=16, thorough=160,
          shards_quick=16, shards_thorough=16, min_nontrivial=0.0)
def fresh_process_agreement(d, ctx):
    """results do not depend on what happened earlier in the process: a step
    executed after a drawn history of other trainers equals the same step in
    a pristine interpreter (bit for bit, compared by digest)"""
    import os
    import subprocess
    import sys
    from pbv import stepworker
    kind = d.choice(['watson', 'cwmm', 'cacgmm', 'gmm', 'vmfmm'])
    D = d.int(2, 4)

    def draw_step(conc):
        return dict(op='fit', seed=d.int(0, 10 ** 6), D=D, K=2, N=4 * D + 8,
                    iterations=d.int(1, 3), saliency=d.bool(), wca=None, norm=None,
                    ctype=None, F=None, aligner=False, concentrated=conc)

    history = []
    for _ in range(d.int(1, 3)):
        kw = {}
        if kind in ('watson', 'cwmm'):
            mc = d.choice([None, 500, 100, 20, 5])
            if mc:
                kw['max_concentration'] = mc
        history.append((kw, draw_step(False)))
    final_kw = {}
    if kind in ('watson', 'cwmm'):
        final_kw['max_concentration'] = d.choice([20, 5, 100])
    final = draw_step(True)
    for kw, st_ in history:
        try:
            run_step(kind, make_trainer(kind, kw), st_)
        except Exception:  # noqa
            pass
    try:
        here = canon(run_step(kind, make_trainer(kind, final_kw), final))
    except Exception as e:  # noqa
        here = ['raises', type(e).__name__]
    env = dict(os.environ)
    proc = subprocess.run(
        [sys.executable, '-m', 'pbv.stepworker'], input=json.dumps(
            dict(kind=kind, trainer_kwargs=final_kw, step=final)),
        stdout=subprocess.PIPE, stderr=subprocess.PIPE, text=True, env=env,
        cwd=os.path.dirname(os.path.dirname(os.path.abspath(__file__))) + '/..')
    lines = [l for l in proc.stdout.splitlines() if l.startswith('DIGEST ')]
    if not lines:
        raise RuntimeError('stepworker failed: ' + proc.stderr[-400:])
    ctx.describe(kind=kind, history=[h[0] for h in history], final=final_kw)
    ctx.label(kind)
    require(lines[-1].split()[1] == stepworker.digest(here),
            'result-depends-on-process-history',
            f'{kind}: trainer kwargs {final_kw} after history {[h[0] for h in history]}',
            kind=kind)
    ctx.nontrivial(True)
