"""C17 - the documented pipeline separates a separable multi-channel scene.

Chain as in examples/mixture_model_example.ipynb: per-frequency spatial
mixture model -> DHTV alignment -> oracle global alignment -> mask based PSDs
-> beamforming -> invasive SXR.
"""
import itertools

import numpy as np

from pbv import gen
from pbv.core import Borderline, Violation, require, subcheck

SUBCHECKS = []
RULE = (
    'Scenes: K 2..3 sources disjoint in time-frequency (one source per '
    'frame, every source active in >= 15 % of the frames), D K+1..8, F in '
    '{33, 65, 257}, T 60..200, random complex steering vectors per '
    'frequency (bins with pairwise |cos| > 0.95 redrawn: separability), sensor noise 40..60 dB below the sources; start = true '
    'partition blurred (beta <= 0.3) and permuted per frequency with a '
    'permutation field inside the domain of C16 (>= 70 % of the first DHTV '
    'segment in one order, arbitrary elsewhere); cACGMM and cWMM; 9 '
    'interference cancelling beamformer names (Souden MVDR, GEV with/without BAN, rank-one variants, WMWF - exactly the families the property lists). Thresholds of the property: '
    'arg-max accuracy >= 99 %, SIR >= 30 dB for every source. Non-trivial: '
    'a non-constant permutation field. Distinct = distinct recorded choice '
    'sequence.'
)

NAMES = ['mvdr_souden', 'gev', 'gev+ban',
         'rank1_pca+mvdr_souden', 'rank1_gev+mvdr_souden', 'rank1_pca+gev',
         'wmwf', 'rank1_pca+wmwf', 'rank1_gev+wmwf']


def make_scene(d, rng):
    K = d.int(2, 3)
    D = d.int(K + 1, 8)
    F = d.choice([33, 33, 65, 257])
    T = d.int(60, 200) if F < 257 else d.int(60, 120)
    # activity: one source per frame, every source >= 15 % of the frames
    while True:
        lab = rng.integers(0, K, size=T)
        # bursts make the activity patterns realistic
        for t in range(1, T):
            if rng.uniform() < 0.6:
                lab[t] = lab[t - 1]
        if np.min(np.bincount(lab, minlength=K)) >= 0.15 * T:
            break
    steer = gen.cnormal(rng, (K, F, D))
    # "separable scene": no bin in which two steering vectors are (nearly)
    # collinear - such a bin cannot be separated spatially by any method;
    # bins with pairwise |cos| > 0.95 are redrawn
    for _ in range(100):
        u = gen.unit(steer)
        g = np.abs(np.einsum('kfd,jfd->fkj', u.conj(), u)) - np.eye(K)
        bad = np.where(g.max(axis=(1, 2)) > 0.95)[0]
        if len(bad) == 0:
            break
        steer[:, bad, :] = gen.cnormal(rng, (K, len(bad), D))
    src = gen.cnormal(rng, (K, F, T)) * (0.3 + rng.uniform(size=(K, F, T)))
    src = src * (lab[None, None, :] == np.arange(K)[:, None, None])
    images = steer[:, :, :, None] * src[:, :, None, :]       # (K, F, D, T)
    snr_db = d.choice([40, 50, 60])
    if d.epoch >= 3 and d.aux(173).integers(0, 4) == 0:
        # "at least 40 dB below": also far less noise (simulated data, 24-bit
        # recordings): the noise PSD estimates approach singularity
        snr_db = float(np.round(d.aux(174).uniform(60, 130), 1))
    p_src = np.mean(np.abs(images.sum(0)) ** 2)
    noise = gen.cnormal(rng, (F, D, T)) * np.sqrt(p_src * 10 ** (-snr_db / 10))
    # overall recording level (a quiet or a loud recording: the property does
    # not depend on it, every stage normalises or is scale invariant)
    level = 10.0 ** d.aux(171).uniform(-4, 2) if d.aux(172).integers(0, 2) else 1.0
    images, noise = images * level, noise * level
    return dict(K=K, D=D, F=F, T=T, lab=lab, images=images, noise=noise,
                X=images.sum(0) + noise, snr_db=snr_db, level=level)


_ALIGNERS = {}


def dhtv_for(pa, F, d):
    """aligner objects live as long as the worker process and are reused for
    every scene with the same configuration - the way a user processes many
    utterances (results must not depend on that history, C20)"""
    metric = d.choice(['cos', 'cos', 'euclidean', 'multiply'])
    if F == 257:
        name = f'default-512-{metric}'
        if name not in _ALIGNERS:
            try:
                _ALIGNERS[name] = pa.DHTVPermutationAlignment.from_stft_size(
                    512, similarity_metric=metric)
            except Exception as e:  # noqa
                raise Violation('shipped-default-configuration-raises',
                                f'from_stft_size(512): {type(e).__name__}: {e}')
        return _ALIGNERS[name], name
    width = {33: 12, 65: 24}[F]
    shift = width // 6    # keeps >= 2/3 overlap also for the stretched ends
    start = d.choice([F // 4, F // 3])
    name = f'custom-{F}-{start}-{width}-{shift}-{metric}'
    if name not in _ALIGNERS:
        _ALIGNERS[name] = pa.DHTVPermutationAlignment(
            stft_size=2 * (F - 1), segment_start=start, segment_width=width,
            segment_shift=shift, main_iterations=20, sub_iterations=2,
            similarity_metric=metric)
    return _ALIGNERS[name], name


def draw_field(d, rng, K, F, first):
    perms = [list(p) for p in itertools.permutations(range(K))]
    kind = d.choice(['random', 'blocks', 'identity'])
    if kind == 'random':
        field = [perms[i] for i in rng.integers(0, len(perms), size=F)]
    elif kind == 'blocks':
        field, cur = [], perms[0]
        for f in range(F):
            if rng.uniform() < 0.15:
                cur = perms[rng.integers(len(perms))]
            field.append(cur)
    else:
        field = [perms[0]] * F
    b, e = first
    common = perms[rng.integers(len(perms))]
    free = set(rng.permutation(np.arange(b, e))[:int(0.3 * (e - b) * rng.uniform())].tolist())
    field = list(field)
    for f in range(b, e):
        if f not in free:
            field[f] = common
    return field, kind


@subcheck(SUBCHECKS, 'pipeline', quick=120, thorough=3000, shards_quick=16,
          shards_thorough=16)
def pipeline(d, ctx):
    import pb_bss.permutation_alignment as pa
    from pb_bss.distribution import CACGMMTrainer, CWMMTrainer
    from pb_bss.evaluation.sxr_module import output_sxr
    from pb_bss.extraction.beamformer import (apply_beamforming_vector,
                                              get_power_spectral_density_matrix)
    from pb_bss.extraction.beamformer_wrapper import get_bf_vector
    rng = d.rng()
    sc = make_scene(d, rng)
    K, D, F, T, lab = sc['K'], sc['D'], sc['F'], sc['T'], sc['lab']
    model_kind = d.choice(['cacgmm', 'cwmm'])
    aligner, plan_name = dhtv_for(pa, F, d)
    plan = aligner.alignment_plan
    covered = np.zeros(F, dtype=bool)
    covered[plan[0][1]:plan[0][2]] = True
    for _, b, e in plan[1:]:
        assert covered[b:e].sum() >= (2 / 3) * (e - b) - 1e-9, (plan_name, plan)
        covered[b:e] = True
    field, fk = draw_field(d, rng, K, F, (plan[0][1], plan[0][2]))
    beta = d.choice([0.0, 0.1, 0.3])
    onehot = (lab[None, :] == np.arange(K)[:, None]).astype(float)      # (K, T)
    soft = (1 - beta) * onehot + beta * (1 - onehot) / (K - 1)
    init = np.stack([soft[field[f]] for f in range(F)])                   # (F, K, T)
    Y = np.transpose(sc['X'], (0, 2, 1))                                  # (F, T, D)
    iterations = d.choice([5, 10, 20])
    ctx.describe(K=K, D=D, F=F, T=T, model=model_kind, plan=plan_name,
                 field=fk, beta=beta, iterations=iterations, snr_db=sc['snr_db'],
                 level=sc['level'])
    ctx.label(model_kind, f'F={F}', f'K={K}', fk, plan_name.split('-')[0],
              'metric=' + plan_name.split('-')[-1])
    trainer = CACGMMTrainer() if model_kind == 'cacgmm' else CWMMTrainer()
    model = ctx.lib(trainer.fit, Y, initialization=init, iterations=iterations)
    post = ctx.lib(model.predict, Y)                                      # (F, K, T)
    post_kft = np.transpose(post, (1, 0, 2))
    mapping = ctx.lib(aligner.calculate_mapping, post_kft)
    aligned = ctx.lib(aligner.apply_mapping, post_kft, mapping)           # (K, F, T)
    reference = np.broadcast_to(onehot[:, None, :], (K, F, T))
    g = ctx.lib(pa.OraclePermutationAlignment().calculate_mapping,
                aligned.reshape(K, F * T), reference.reshape(K, F * T))
    aligned = aligned[g]
    est = np.argmax(aligned, axis=0)                                      # (F, T)
    acc = float(np.mean(est == lab[None, :]))
    require(acc >= 0.99, 'posterior-accuracy-below-99-percent',
            f'{model_kind} K={K} D={D} F={F} T={T} field={fk} beta={beta}: '
            f'accuracy {acc:.4f}', model=model_kind)
    # mask based PSDs and beamforming
    X = sc['X']
    worst = {}
    for name in NAMES:
        ws = []
        for k in range(K):
            tgt = ctx.lib(get_power_spectral_density_matrix, X, aligned[k])
            noi = ctx.lib(get_power_spectral_density_matrix, X, 1 - aligned[k])
            ws.append(ctx.lib(get_bf_vector, name, tgt, noi))
        ws = np.stack(ws)                                                  # (K, F, D)
        contrib = np.empty((K, K, F * T), dtype=np.complex128)
        for ks in range(K):
            for kt in range(K):
                contrib[ks, kt] = ctx.lib(apply_beamforming_vector, ws[kt],
                                          sc['images'][ks]).reshape(-1)
        ncontrib = np.stack([ctx.lib(apply_beamforming_vector, ws[kt], sc['noise']).reshape(-1)
                             for kt in range(K)])
        res = ctx.lib(output_sxr, contrib, ncontrib, average_sources=False)
        sir = np.asarray(res.sir)
        worst[name] = float(sir.min())
        require(np.all(np.isfinite(sir) | (sir == np.inf)) and sir.min() >= 30.0,
                'output-sir-below-30-db',
                f'{name}: SIR per source {np.round(sir, 1).tolist()} dB '
                f'({model_kind} K={K} D={D} F={F} T={T} accuracy={acc:.4f})',
                name=name, model=model_kind, spare_sensors=min(D - K, 2))
    ctx.describe(accuracy=acc, worst_sir=min(worst.values()))
    ctx.nontrivial(not all(f == field[0] for f in field))
