"""C18 - oracle masks satisfy their defining identities in every axis
layout."""
import math

import numpy as np

from pbv import gen
from pbv.core import Borderline, Violation, require, require_close, subcheck

SUBCHECKS = []
RULE = (
    'Complex tensors with 1..4 axes (sizes 1..6, up to 24 for the '
    'time/frequency axes of quantile/Lorenz masks), every valid source_axis '
    '/ sensor_axis pair given as positive or negative index, keepdims, tied '
    'powers (small integer alphabets), silent points, all-zero tensors; '
    'quantile / Lorenz inputs with >= 8 points of which none carries the '
    'Lorenz fraction. Oracles: the definitions written out on axes moved to '
    'a canonical layout, own sort-and-interpolate percentile, fsum '
    'cumulative shares; thresholds closer than 1e-12 relative to a data '
    'point are counted as borderline. Non-trivial: ndim >= 2 with a '
    'non-default axis argument, or ties/silence present. Distinct = distinct '
    'recorded choice sequence.'
)
EPS = 1e-18


def _mm():
    import pb_bss.extraction.mask_module as m
    return m


def draw_tensor(d, min_ndim=1, max_ndim=4, max_size=6):
    ndim = d.int(min_ndim, max_ndim)
    shape = tuple(d.choice([1, 2, 2, 3, 3, 4, max_size]) for _ in range(ndim))
    kind = d.choice(['continuous', 'continuous', 'ties', 'silent', 'zero', 'scaled'])
    rng = d.rng()
    if kind == 'ties':
        x = d.small_array(shape, [0, 1, -1, 2]) + 1j * d.small_array(shape, [0, 1])
        x = x.astype(np.complex128)
    elif kind == 'zero':
        x = np.zeros(shape, dtype=np.complex128)
    else:
        x = gen.cnormal(rng, shape)
        if kind == 'silent':
            x = x * (rng.uniform(size=shape) > 0.4)
        if kind == 'scaled':
            x = x * d.log10(-8, 8)
    return x, kind


def neg(d, ax, ndim):
    return ax - ndim if d.bool() else ax


def pooled_power(x, sensor_ax):
    p = x.real ** 2 + x.imag ** 2
    if sensor_ax is not None:
        p = p.sum(axis=sensor_ax, keepdims=True)
    return p


@subcheck(SUBCHECKS, 'source_masks', quick=3600, thorough=30000, fuzz=4000)
def source_masks(d, ctx):
    m = _mm()
    which = d.choice(['ibm', 'ibm', 'wiener', 'wiener', 'wiener', 'irm', 'icm', 'psm'])
    x, kind = draw_tensor(d, min_ndim=2 if which in ('ibm', 'wiener') and d.bool() else 1)
    ndim = x.ndim
    src = d.int(0, ndim - 1)
    sensor = None
    keepdims = False
    if which in ('ibm', 'wiener') and ndim >= 2 and d.int(0, 2) != 0:
        sensor = d.choice([a for a in range(ndim) if a != src])
        keepdims = d.bool()
    kw = {}
    if src != 0 or d.bool():
        kw['source_axis'] = neg(d, src, ndim)
    if sensor is not None:
        kw['sensor_axis'] = neg(d, sensor, ndim)
        if keepdims:
            kw['keepdims'] = True
    eps_used = EPS
    if which in ('wiener', 'irm', 'psm') and d.int(0, 3) == 0:
        eps_used = d.choice([1e-10, 1e-3, 0.5])
        kw['eps'] = eps_used
    dtype_variant = d.choice(['complex128', 'complex128', 'complex128', 'complex64', 'real'])
    if dtype_variant == 'complex64':
        x = x.astype(np.complex64)
    elif dtype_variant == 'real' and which in ('ibm', 'wiener', 'irm'):
        x = np.ascontiguousarray(x.real)
    rt = 1e-5 if x.dtype in (np.complex64, np.float32) else 1e-12
    x_in = np.array(x)
    x_in.setflags(write=False)
    fn = {'ibm': m.ideal_binary_mask, 'wiener': m.wiener_like_mask,
          'irm': m.ideal_ratio_mask, 'icm': m.ideal_complex_mask,
          'psm': m.phase_sensitive_mask}[which]
    got = ctx.lib(fn, x_in, **kw)
    ctx.describe(mask=which, shape=x.shape, kind=kind, kwargs=kw)
    ctx.label(which, f'ndim={ndim}', kind, 'sensor' if sensor is not None else 'no-sensor',
              dtype_variant, 'eps-keyword' if 'eps' in kw else 'eps-default')
    require(np.array_equal(x_in, x), 'argument-modified', which)
    exp_shape = tuple(s for a, s in enumerate(x.shape)
                      if not (a == sensor and not keepdims))
    if sensor is not None and keepdims:
        exp_shape = tuple(1 if a == sensor else s for a, s in enumerate(x.shape))
    require(np.shape(got) == exp_shape, f'{which}-shape',
            f'{np.shape(got)} expected {exp_shape} for {x.shape} {kw}', mask=which)
    # canonical: keep sensor axis as singleton for the comparison
    g = np.asarray(got)
    if sensor is not None and not keepdims:
        g = np.expand_dims(g, sensor)
    xd = x.astype(np.complex128) if np.iscomplexobj(x) else x.astype(np.float64)
    p = pooled_power(xd.astype(np.complex128), sensor)
    if which == 'ibm':
        require(np.all((g == 0) | (g == 1)), 'ibm-binary', '')
        require(np.all(g.sum(axis=src) == 1), 'ibm-one-hot', '')
        chosen = np.sum(g * p, axis=src)
        require(np.all(chosen >= p.max(axis=src) * (1 - 10 * rt)), 'ibm-not-at-maximal-power',
                f'{kw}', mask=which)
    elif which == 'wiener':
        ref = p / (p.sum(axis=src, keepdims=True) + eps_used)
        require_close(g, ref, 'wiener-definition', rtol=rt, atol=1e-300 + rt * 1e-3,
                      what=f'{kw}', mask=which)
        require(np.all(np.isfinite(g)) and g.min() >= 0 and g.max() <= 1 + rt,
                'wiener-range', f'{g.min()} {g.max()}')
        tot = p.sum(axis=src)
        require_close(g.sum(axis=src), tot / (tot + eps_used), 'wiener-sum', rtol=rt,
                      atol=10 * rt)
    elif which == 'irm':
        a = np.abs(xd)
        ref = a / (a.sum(axis=src, keepdims=True) + eps_used)
        require_close(g, ref, 'irm-definition', rtol=rt, atol=1e-300 + rt * 1e-3, what=f'{kw}',
                      mask=which)
        require(np.all(np.isfinite(g)) and g.min() >= 0 and g.max() <= 1 + rt,
                'irm-range', '')
    elif which == 'icm':
        y = xd.sum(axis=src, keepdims=True)
        ok = np.abs(y) > 1e-3 * np.abs(xd).sum(axis=src, keepdims=True)
        ok = np.broadcast_to(ok & (np.abs(y) > 0), x.shape)
        if ok.any():
            rec = (g * y)[ok]
            require_close(rec, xd[ok], 'icm-times-mixture-is-not-the-source',
                          rtol=max(rt * 1e4, 1e-9), atol=1e-300, what=f'{kw}', mask=which)
    else:
        y = xd.sum(axis=src, keepdims=True)
        require(np.all(np.isfinite(g)), 'psm-finite', '')
        if 'eps' in kw:
            # the definition with the configured guard
            th = np.angle(xd) - np.angle(y)
            ref = np.abs(xd) / (np.abs(y) + eps_used) * np.cos(th)
            require_close(g, ref, 'psm-definition-with-eps', rtol=max(rt * 100, 1e-9),
                          atol=max(rt * 100, 1e-9), mask=which)
        ok = np.broadcast_to(np.abs(y) > 1e-6, x.shape)
        if ok.any() and 'eps' not in kw:
            ref = (xd / np.where(y == 0, 1, y)).real
            require_close(g[ok], ref[ok], 'psm-is-not-real-part-of-complex-mask',
                          rtol=max(rt * 100, 1e-9), atol=max(rt * 100, 1e-9),
                          what=f'{kw}', mask=which)
    # moving the source axis moves the output axis and nothing else
    if ndim >= 2 and sensor is None:
        dst = d.int(0, ndim - 1)
        xm = np.moveaxis(x, src, dst)
        gm = ctx.lib(fn, xm, source_axis=neg(d, dst, ndim),
                     **({'eps': kw['eps']} if 'eps' in kw else {}))
        if which == 'ibm':
            # ties may be broken differently only if the argmax order changed:
            # it is along the source axis, so the result must be identical
            pass
        require_close(np.moveaxis(np.asarray(gm), dst, src), np.asarray(got),
                      'moving-the-source-axis-changes-the-result', rtol=rt,
                      atol=1e-300, what=f'{which} {src}->{dst}', mask=which,
                      ) if not np.any(np.isnan(got)) else None
    ctx.nontrivial(ndim >= 2 and ('source_axis' in kw or sensor is not None)
                   or kind in ('ties', 'silent'))


def own_percentile(v, q):
    """linear interpolation percentile (q in [0, 100]) by sorting"""
    s = np.sort(np.asarray(v, dtype=np.float64))
    n = len(s)
    pos = (n - 1) * q / 100.0
    lo = int(math.floor(pos))
    hi = min(lo + 1, n - 1)
    return s[lo] + (s[hi] - s[lo]) * (pos - lo)


@subcheck(SUBCHECKS, 'quantile_mask', quick=1800, thorough=15000, fuzz=4000)
def quantile_mask(d, ctx):
    m = _mm()
    ndim = d.int(1, 4)
    shape = [d.int(1, 4) for _ in range(ndim)]
    n_axes = d.int(1, min(2, ndim))
    axes = sorted(d.subset(ndim, n_axes, n_axes))
    # at least 8 points along the chosen axes
    while np.prod([shape[a] for a in axes]) < 8:
        shape[axes[-1]] += d.int(1, 8)
    shape = tuple(shape)
    rng = d.rng()
    kind = d.choice(['continuous', 'ties'])
    if kind == 'ties':
        x = d.small_array(shape, [0, 1, 2, 3]).astype(np.complex128) * \
            np.exp(1j * rng.uniform(size=shape))
    else:
        x = gen.cnormal(rng, shape)
    q = d.choice([0.1, 0.25, 0.5, 0.9, -0.1, -0.5, -0.9]) if d.bool() else \
        round(d.float(-0.95, 0.95), 3)
    if q == 0:
        q = 0.2
    weight = d.choice([0.999, 0.5, 1.0])
    ax_arg = tuple(neg(d, a, ndim) for a in axes)
    if len(ax_arg) == 1 and d.bool():
        ax_arg = ax_arg[0]
    elif d.bool():
        ax_arg = list(ax_arg) if d.bool() else tuple(reversed(ax_arg))
    x_in = np.array(x)
    x_in.setflags(write=False)
    got = ctx.lib(m.quantile_mask, x_in, quantile=q, axis=ax_arg, weight=weight)
    ctx.describe(shape=shape, axes=axes, axis_arg=ax_arg, quantile=q, weight=weight,
                 kind=kind)
    ctx.label(f'naxes={len(axes)}', kind, 'q>0' if q > 0 else 'q<0', f'ndim={ndim}')
    require(np.shape(got) == shape, 'quantile-shape', f'{np.shape(got)} vs {shape}')
    a = np.abs(x)
    am = np.moveaxis(a, axes, list(range(ndim - len(axes), ndim)))
    lead = am.shape[:ndim - len(axes)]
    flat = am.reshape(*lead, -1)
    ref = np.empty(flat.shape)
    hi, lo = 0.5 + weight / 2, 0.5 - weight / 2
    for idx in np.ndindex(*lead):
        v = flat[idx]
        pct = (1 - q) * 100 if q > 0 else abs(q) * 100
        thr = own_percentile(v, pct)
        # the interpolation position is computed in floating point: if the
        # classification changes when it moves by 1e-9 the case is borderline
        # (a data point within rounding of the threshold)
        cls = []
        for dp in (-1e-9, 0.0, 1e-9):
            t = own_percentile(v, min(max(pct + dp * 100, 0.0), 100.0))
            cls.append(v > t if q > 0 else v < t)
        if not (np.array_equal(cls[0], cls[1]) and np.array_equal(cls[1], cls[2])):
            raise Borderline('threshold within rounding of a data point')
        on = v > thr if q > 0 else v < thr
        ref[idx] = np.where(on, hi, lo)
    ref = np.moveaxis(ref.reshape(am.shape), list(range(ndim - len(axes), ndim)), axes)
    # np.percentile itself may differ from the own interpolation by an ulp
    # exactly at a data point: such points are borderline
    bad = np.asarray(got) != ref
    if np.any(bad):
        raise Violation('quantile-mask-definition',
                        f'{int(bad.sum())} of {bad.size} points differ (q={q}, '
                        f'axis={ax_arg}, shape={shape})')
    ctx.nontrivial(ndim >= 2)


@subcheck(SUBCHECKS, 'quantile_mask_tuple', quick=300, thorough=2500)
def quantile_mask_tuple(d, ctx):
    m = _mm()
    F, T = d.int(2, 6), d.int(8, 24)
    lead = tuple(d.int(1, 3) for _ in range(d.int(0, 1)))
    x = gen.cnormal(d.rng(), (*lead, T, F))
    qs = (0.1, -0.9) if d.bool() else (d.choice([0.2, 0.5]), d.choice([-0.3, -0.7]))
    kw = {} if qs == (0.1, -0.9) and d.bool() else {'quantile': qs}
    got = ctx.lib(m.quantile_mask, x, **kw)
    require(np.shape(got) == (2, *x.shape), 'quantile-tuple-shape', f'{np.shape(got)}')
    for i, q in enumerate(qs):
        one = ctx.lib(m.quantile_mask, x, quantile=q)
        require(np.array_equal(got[i], one), 'quantile-tuple-differs-from-scalar', f'{q}')
    ctx.describe(shape=x.shape, quantiles=qs)
    ctx.nontrivial(True)


@subcheck(SUBCHECKS, 'lorenz_mask', quick=1800, thorough=15000, fuzz=4000)
def lorenz_mask(d, ctx):
    m = _mm()
    ndim = d.int(2, 4)
    shape = [d.int(1, 4) for _ in range(ndim)]
    n_axes = d.int(1, 2)
    axes = sorted(d.subset(ndim, n_axes, n_axes))
    sensor = None
    rest = [a for a in range(ndim) if a not in axes]
    if rest and d.bool():
        sensor = d.choice(rest)
    while np.prod([shape[a] for a in axes]) < 8:
        shape[axes[-1]] += d.int(1, 8)
    shape = tuple(shape)
    rng = d.rng()
    kind = d.choice(['continuous', 'ties', 'peaky'])
    if kind == 'ties':
        x = (d.small_array(shape, [1, 2, 3]) * np.exp(1j * rng.uniform(size=shape))
             ).astype(np.complex128)
    else:
        x = gen.cnormal(rng, shape)
        if kind == 'peaky':
            x = x * 10 ** rng.uniform(-2, 1, size=shape)
    frac = d.choice([0.98, 0.9, 0.5, 0.7])
    weight = d.choice([0.999, 0.5])
    keepdims = sensor is not None and d.bool()
    exact = False
    if d.aux(181).integers(0, 4) == 0:
        # integer magnitudes with phases 1, i, -1, -i: every power, partial sum
        # and - for a dyadic fraction - every comparison of a cumulative share
        # with the fraction is exact, in the library and here, so a share that
        # equals the fraction is judged by the letter ("stays below") instead
        # of being set aside as a rounding question
        from fractions import Fraction
        aux = d.aux(182)
        mag = aux.integers(0, 5, size=shape) * (aux.uniform(size=shape) < 0.8)
        x = (mag * (1j ** aux.integers(0, 4, size=shape))).astype(np.complex128)
        kind, exact = 'exact-integers', True
        pw = np.abs(x) ** 2
        if sensor is not None:
            pw = pw.sum(axis=sensor, keepdims=True)
        fl = np.moveaxis(pw, axes, list(range(ndim - len(axes), ndim)))
        fl = fl.reshape(-1, int(np.prod([shape[a] for a in axes])))
        row = np.sort(fl[int(aux.integers(0, len(fl)))])[::-1]
        tot = int(row.sum())
        hits = []
        for i in range(1, len(row) - 1):
            if tot > 0:
                f = Fraction(int(row[:i + 1].sum()), tot)
                if f < 1 and f.denominator & (f.denominator - 1) == 0 and f.denominator <= 2 ** 20:
                    hits.append(float(f))
        if hits and aux.integers(0, 3) > 0:
            frac = float(hits[int(aux.integers(0, len(hits)))])
        else:
            frac = float(aux.choice([0.5, 0.75, 0.875, 0.625, 0.78125]))
    kw = dict(axis=tuple(neg(d, a, ndim) for a in axes), lorenz_fraction=frac,
              weight=weight)
    if len(axes) == 1 and d.bool():
        kw['axis'] = kw['axis'][0]
    if sensor is not None:
        kw['sensor_axis'] = neg(d, sensor, ndim)
        kw['keepdims'] = keepdims
    x_in = np.array(x)
    x_in.setflags(write=False)
    p = np.abs(x) ** 2
    if sensor is not None:
        p = p.sum(axis=sensor, keepdims=True)
    pm = np.moveaxis(p, axes, list(range(ndim - len(axes), ndim)))
    lead = pm.shape[:ndim - len(axes)]
    flat = pm.reshape(*lead, -1)
    ref = np.empty(flat.shape)
    hi, lo = 0.5 + weight / 2, 0.5 - weight / 2
    for idx in np.ndindex(*lead):
        v = flat[idx]
        s = np.sort(v)[::-1]
        total = math.fsum(s)
        if exact:
            from fractions import Fraction
            if total <= 0 or Fraction(int(s[0]), int(total)) >= Fraction(frac):
                raise Borderline('a single point carries the Lorenz fraction')
            below = np.array([Fraction(int(s[:i + 1].sum()), int(total)) < Fraction(frac)
                              for i in range(len(s))])
            if np.any([Fraction(int(s[:i + 1].sum()), int(total)) == Fraction(frac)
                       for i in range(len(s))]):
                ctx.label('share-equals-the-fraction')
            thr = s[below].min()
            ref[idx] = np.where(v > thr, hi, lo)
            continue
        if total <= 0 or s[0] >= frac * total * (1 - 1e-12):
            raise Borderline('a single point carries the Lorenz fraction')
        share = np.array([math.fsum(s[:i + 1]) / total for i in range(len(s))])
        if np.any(np.abs(share - frac) <= 1e-12):
            raise Borderline('cumulative share at the Lorenz fraction')
        thr = s[share < frac].min()
        ref[idx] = np.where(v > thr, hi, lo)
    ref = np.moveaxis(ref.reshape(pm.shape), list(range(ndim - len(axes), ndim)), axes)
    if sensor is not None and not keepdims:
        ref = np.squeeze(ref, sensor)
    got = ctx.lib(m.lorenz_mask, x_in, **kw)
    ctx.describe(shape=shape, kwargs=kw, kind=kind)
    ctx.label(f'naxes={len(axes)}', kind, 'sensor' if sensor is not None else 'no-sensor',
              f'ndim={ndim}')
    require(np.shape(got) == ref.shape, 'lorenz-shape', f'{np.shape(got)} vs {ref.shape}')
    bad = np.asarray(got) != ref
    require(not np.any(bad), 'lorenz-mask-definition',
            f'{int(bad.sum())} of {bad.size} points differ ({kw}, shape={shape})')
    ctx.nontrivial(True)


@subcheck(SUBCHECKS, 'zero_input_finite', quick=300, thorough=2000)
def zero_input_finite(d, ctx):
    m = _mm()
    ndim = d.int(1, 4)
    shape = tuple(d.int(1, 5) for _ in range(ndim))
    x = np.zeros(shape, dtype=np.complex128)
    src = d.int(0, ndim - 1)
    for name in ('wiener_like_mask', 'ideal_ratio_mask', 'ideal_amplitude_mask',
                 'phase_sensitive_mask', 'ideal_binary_mask'):
        out = ctx.lib(getattr(m, name), x, source_axis=src)
        require(np.all(np.isfinite(out)), 'zero-input-not-finite', name, mask=name)
    ctx.describe(shape=shape, source_axis=src)
    ctx.nontrivial(True)
