"""C16 - blind alignment restores a frequency-consistent class order."""
import itertools

import numpy as np

from pbv import gen
from pbv.core import Borderline, Violation, require, require_close, subcheck
from pbv.oracles import alignment as oa

SUBCHECKS = []
RULE = (
    'Scenes: K 2..4, odd F 9..513, T 8..24, non-negative activity patterns '
    'with disjoint supports plus <= 1 % leakage (pairwise cosine <= 0.1 by '
    'construction, verified), per-bin multiplicative jitter <= 10 %, '
    'arbitrary per-frequency permutation fields (first DHTV segment: >= 70 % '
    'of its bins in one common order); shipped DHTV defaults for STFT 512 / '
    '1024 and custom plans with shift <= width/3; consistent inputs; '
    'exhaustive plan coverage for every STFT size <= 64 and every (start, '
    'width, shift <= width); net-reordering clause on continuous random '
    'masks (K 1..5, odd F 1..61, T 1..8) against a loop transcription. '
    'Non-trivial: a non-constant permutation field / K >= 2 with a bin that '
    'is reordered. Distinct = distinct recorded choice sequence.'
)


def _pa():
    import pb_bss.permutation_alignment as pa
    return pa


def scene(d, rng, K, F, T):
    owner = np.arange(T) % K
    owner = rng.permutation(owner)
    P = np.full((K, T), 0.0)
    for k in range(K):
        P[k, owner == k] = rng.uniform(0.5, 1.0, size=int(np.sum(owner == k)))
    P = P + 0.01 * rng.uniform(0, 1, size=(K, T)) * P.max()
    Pn = P / np.linalg.norm(P, axis=-1, keepdims=True)
    cos = Pn @ Pn.T - np.eye(K)
    assert cos.max() <= 0.1, cos.max()
    jitter = 1 + rng.uniform(-0.1, 0.1, size=(K, F, T))
    return P[:, None, :] * jitter


def cast_mask(d, mask):
    """the same scene as float64 / float32 / (binary) integer mask"""
    dt = d.choice(['float64', 'float64', 'float32', 'int8', 'int64', 'bool-as-int'])
    if dt == 'float64':
        return mask, dt
    if dt == 'float32':
        return mask.astype(np.float32), dt
    binary = mask > 0.25
    return binary.astype(np.int8 if dt == 'int8' else np.int64), dt


def permute_layout(d, mask):
    return gen.vary(d, mask, 161)


def permute(mask, field):
    K, F, T = mask.shape
    out = np.empty_like(mask)
    for f in range(F):
        out[:, f] = mask[field[f], f]
    return out


def consistent(field, mapping):
    """field[f][mapping[k, f]] is constant over f for every k"""
    F = len(field)
    comp = np.array([[field[f][mapping[k, f]] for f in range(F)]
                     for k in range(mapping.shape[0])])
    return bool(np.all(comp == comp[:, :1])), comp


def draw_field(d, rng, K, F, first_segment=None):
    perms = [list(p) for p in itertools.permutations(range(K))]
    kind = d.choice(['random', 'random', 'blocks', 'single-swap', 'identity'])
    if kind == 'random':
        field = [perms[i] for i in rng.integers(0, len(perms), size=F)]
    elif kind == 'blocks':
        field = []
        cur = perms[rng.integers(len(perms))]
        for f in range(F):
            if rng.uniform() < 0.1:
                cur = perms[rng.integers(len(perms))]
            field.append(cur)
    elif kind == 'single-swap':
        field = [perms[0]] * F
        f = d.int(0, F - 1)
        field = list(field)
        field[f] = perms[d.int(1, len(perms) - 1)]
    else:
        field = [perms[0]] * F
    if first_segment is not None:
        b, e = first_segment
        common = perms[d.int(0, len(perms) - 1)]
        n = e - b
        n_free = int(np.floor(0.3 * n))
        free = set(rng.permutation(np.arange(b, e))[:d.int(0, n_free)].tolist())
        field = list(field)
        for f in range(b, e):
            if f not in free:
                field[f] = common
    return field, kind


@subcheck(SUBCHECKS, 'greedy_restores_consistency', quick=250, thorough=4000)
def greedy_restores_consistency(d, ctx):
    pa = _pa()
    K = d.int(2, 4)
    F = d.choice([9, 9, 17, 33, 65, 129, 257, 513])
    T = d.int(max(8, 2 * K), 24)
    rng = d.rng()
    # "T >= 8": also long utterances in one case of six (K*K*T*F in the
    # hundreds of thousands, where implementations start to work in blocks)
    if d.aux(162).integers(0, 6) == 0:
        T = int(d.aux(163).integers(100, 700))
    if d.epoch >= 3 and d.aux(166).integers(0, 16) == 0:
        # a whole recording at the shipped STFT size 1024: K*K*T*F of 1e7
        # (one such case in sixteen; about a second each)
        F = 513
        T = int(2 ** 23 / (K * K * F) * d.aux(167).uniform(1.05, 1.5))
        ctx.label('recording-sized')
    mask = scene(d, rng, K, F, T)
    field, fk = draw_field(d, rng, K, F)
    mixed = permute_layout(d, permute(mask, field))
    as_float = mixed
    mixed, dt = cast_mask(d, mixed)
    if T > 100 and mixed.dtype.kind in 'iu':
        # sums over hundreds of frames do not fit the small integer dtypes the
        # binary masks are cast to; long utterances keep floating point masks
        mixed, dt = as_float, 'float64'
    metric = d.choice(['cos', 'euclidean', 'multiply'])
    aligner = pa.GreedyPermutationAlignment(similarity_metric=metric)
    mapping = ctx.lib(aligner.calculate_mapping, mixed)
    ok, comp = consistent(field, np.asarray(mapping))
    ctx.describe(K=K, F=F, T=T, field=fk, metric=metric, dtype=dt)
    ctx.label(f'K={K}', f'F={F}', fk, metric, f'dtype={dt}')
    require(ok, 'greedy-class-order-not-consistent',
            f'metric={metric} K={K} F={F}: first inconsistent bin '
            f'{int(np.argmax(np.any(comp != comp[:, :1], axis=0)))}', metric=metric)
    if fk == 'identity':
        require(np.array_equal(mapping, np.repeat(np.arange(K)[:, None], F, 1)),
                'consistent-input-not-identity-mapping', '')
        require(np.array_equal(ctx.lib(aligner, mixed), mixed),
                'consistent-input-changed', '')
    ctx.nontrivial(fk != 'identity')


def _dhtv_config(d, F):
    if F == 257 and d.bool():
        return dict(default=512)
    if F == 513 and d.bool():
        return dict(default=1024)
    shift = d.int(1, max(1, F // 12))
    width = d.int(3 * shift, max(3 * shift, min(F, 3 * shift + F // 2)))
    width = min(width, F)
    start = d.int(0, F - width)
    return dict(stft_size=2 * (F - 1), segment_start=start, segment_width=width,
                segment_shift=shift, main_iterations=d.choice([20, 10]),
                sub_iterations=d.choice([2, 3]),
                similarity_metric=d.choice(['cos', 'cos', 'euclidean', 'multiply']))


@subcheck(SUBCHECKS, 'dhtv_restores_consistency', quick=160, thorough=2500)
def dhtv_restores_consistency(d, ctx):
    pa = _pa()
    K = d.int(2, 4)
    F = d.choice([9, 17, 33, 65, 129, 257, 257, 513])
    T = d.int(max(8, 2 * K), 20)
    rng = d.rng()
    cfg = _dhtv_config(d, F)
    if 'default' in cfg:
        # "the shipped 512 and 1024 defaults": they have to exist and to fit
        aligner = ctx.lib(pa.DHTVPermutationAlignment.from_stft_size, cfg['default'],
                          clause='shipped-default-configuration-raises')
        require(aligner.stft_size == cfg['default'] and
                2 * (F - 1) == aligner.stft_size,
                'shipped-default-configuration-has-another-stft-size',
                f'{aligner.stft_size} for from_stft_size({cfg["default"]})')
    else:
        aligner = pa.DHTVPermutationAlignment(**cfg)
    plan = aligner.alignment_plan
    first = (plan[0][1], plan[0][2])
    # precondition of the property: every later segment overlaps the band
    # aligned so far by at least two thirds (the stretched outermost segments
    # of a custom plan can violate it)
    covered = np.zeros(F, dtype=bool)
    covered[first[0]:first[1]] = True
    for _, b, e in plan[1:]:
        if covered[b:e].sum() < (2 / 3) * (e - b) - 1e-9:
            raise Borderline('plan with a segment overlapping less than 2/3')
        covered[b:e] = True
    mask = scene(d, rng, K, F, T)
    field, fk = draw_field(d, rng, K, F, first_segment=first)
    mixed = permute_layout(d, permute(mask, field))
    mixed, dt = cast_mask(d, mixed)
    ctx.describe(K=K, F=F, T=T, field=fk, config=cfg, first_segment=first, dtype=dt)
    ctx.label(f'K={K}', f'F={F}', fk, 'default' if 'default' in cfg else 'custom',
              f'dtype={dt}')
    mapping = np.asarray(ctx.lib(aligner.calculate_mapping, mixed))
    ok, comp = consistent(field, mapping)
    require(ok, 'dhtv-class-order-not-consistent',
            f'K={K} F={F} cfg={cfg}: first inconsistent bin '
            f'{int(np.argmax(np.any(comp != comp[:, :1], axis=0)))}')
    if fk == 'identity' and all(f == field[0] for f in field):
        require(np.array_equal(mapping, np.repeat(np.arange(K)[:, None], F, 1)),
                'consistent-input-not-identity-mapping', '')
        require(np.array_equal(ctx.lib(aligner, mixed), mixed),
                'consistent-input-changed', '')
    ctx.nontrivial(not all(f == field[0] for f in field))


def _plan_sizes(tier):
    for stft_size in range(0, 65):
        yield [['i', stft_size, 0]]


@subcheck(SUBCHECKS, 'plan_coverage_exhaustive', quick=0, thorough=0,
          shards_quick=8, shards_thorough=8, exhaustive=_plan_sizes)
def plan_coverage(d, ctx):
    pa = _pa()
    stft_size = d.int(0, 64)
    F = stft_size // 2 + 1
    n = 0
    for start in range(0, F):
        for width in range(1, F - start + 1):
            for shift in range(1, width + 1):
                al = pa.DHTVPermutationAlignment(
                    stft_size=stft_size, segment_start=start, segment_width=width,
                    segment_shift=shift, main_iterations=2, sub_iterations=1)
                plan = ctx.lib(lambda: al.alignment_plan)
                covered = np.zeros(F, dtype=bool)
                for it, b, e in plan:
                    require(0 <= b < e <= F, 'plan-segment-out-of-range',
                            f'{(stft_size, start, width, shift)}: {plan}')
                    covered[b:e] = True
                require(covered.all(), 'plan-does-not-cover-every-bin',
                        f'stft_size={stft_size} start={start} width={width} '
                        f'shift={shift}: uncovered {np.where(~covered)[0][:5].tolist()}')
                ref = oa.plan(F, start, width, shift, 2, 1)
                require([list(p) for p in plan] == ref, 'plan-differs-from-transcription',
                        f'{(stft_size, start, width, shift)}: {plan} vs {ref}')
                n += 1
    ctx.describe(stft_size=stft_size, F=F, configurations=n)
    ctx.label(f'configs={n}')
    ctx.nontrivial(n > 0)


@subcheck(SUBCHECKS, 'net_reordering_model', quick=700, thorough=12000, fuzz=3000)
def net_reordering_model(d, ctx):
    pa = _pa()
    K = d.int(1, 5)
    F = 2 * d.int(0, 30) + 1 if d.bool() else 2 * d.int(0, 6) + 1
    T = d.int(1, 8)
    rng = d.rng()
    mask = rng.uniform(0.05, 1.0, size=(K, F, T))
    signed = d.int(0, 2) == 0
    if signed:
        mask = rng.normal(size=(K, F, T))
    if not signed and d.bool() and T >= K:
        # structured: classes with (noisy) distinct activity, permuted per bin
        base = scene(d, rng, K, F, max(T, 2 * K)) if K >= 2 else mask
        if K >= 2:
            T = base.shape[-1]
            field, _ = draw_field(d, rng, K, F)
            mask = permute(base * rng.uniform(0.7, 1.3, size=base.shape), field)
    level = 1.0
    if d.aux(164).integers(0, 2) == 0:
        # "all real masks": any level (posteriors of a nearly inactive class,
        # magnitudes, powers)
        level = float(10.0 ** d.aux(165).uniform(-30, 6))
        mask = mask * level
    which = d.choice(['dhtv', 'dhtv', 'greedy'])
    if which == 'dhtv':
        start = d.int(0, F - 1)
        width = d.int(1, F - start)
        shift = d.int(1, width)
        cfg = dict(segment_start=start, segment_width=width, segment_shift=shift,
                   main_iterations=d.int(1, 5), sub_iterations=d.int(1, 3),
                   similarity_metric=d.choice(['cos', 'euclidean', 'multiply']),
                   algorithm=d.choice(['greedy', 'optimal']))
        aligner = pa.DHTVPermutationAlignment(stft_size=2 * (F - 1), **cfg)
        ref_map, ref_feat, tie = oa.dhtv(
            mask, start, width, shift, cfg['main_iterations'], cfg['sub_iterations'],
            cfg['similarity_metric'], cfg['algorithm'])
    else:
        metric = d.choice(['cos', 'euclidean', 'multiply'])
        cfg = dict(metric=metric)
        aligner = pa.GreedyPermutationAlignment(similarity_metric=metric)
        ref_map, tie = oa.greedy_chain(mask, metric)
        ref_feat = None
    ctx.describe(K=K, F=F, T=T, aligner=which, config=cfg, level=level)
    ctx.label(which, f'K={K}', 'signed' if signed else 'non-negative',
              'unit-level' if level == 1.0 else 'other-level')
    if tie:
        raise Borderline('score tie')
    mapping = np.asarray(ctx.lib(aligner.calculate_mapping, mask.copy()))
    require(mapping.shape == (K, F), 'mapping-shape', f'{mapping.shape}')
    require(np.array_equal(mapping, ref_map),
            'mapping-is-not-the-net-reordering-of-the-procedure',
            f'{which} {cfg}: first differing bin '
            f'{int(np.argmax(np.any(mapping != ref_map, axis=0)))}: '
            f'{mapping[:, int(np.argmax(np.any(mapping != ref_map, axis=0)))].tolist()} vs '
            f'{ref_map[:, int(np.argmax(np.any(mapping != ref_map, axis=0)))].tolist()}',
            aligner=which)
    out = ctx.lib(aligner, mask.copy())
    exp = np.empty_like(mask)
    for f in range(F):
        exp[:, f] = mask[ref_map[:, f], f]
    require(np.array_equal(out, exp), 'aligned-mask-is-not-mask-in-mapped-order', which)
    if ref_feat is not None:
        feat = oa.normalise(exp) if cfg['similarity_metric'] == 'cos' else exp
        require_close(feat, ref_feat, 'aligned-mask-differs-from-converged-features',
                      atol=1e-12 * (1.0 if cfg['similarity_metric'] == 'cos' else level))
    ctx.nontrivial(K >= 2 and not np.array_equal(
        ref_map, np.repeat(np.arange(K)[:, None], F, 1)))
