"""C01 - affiliations are valid distributions and equal the Bayes posterior."""
import numpy as np

from pbv import mm
from pbv.core import Borderline, Rejected, Violation, require, subcheck

SUBCHECKS = []
RULE = (
    'Cases: model kind x leading axes (0..2, sizes 1..3; integration models '
    '(F,T,.)) x K 1..6 x D 2..8 (cBMM 2..6) x N 1..40 (incl. N < D) x '
    'single/double precision x data family (clustered, zero frames, all zero, '
    'duplicated, rank deficient) x global scale 1e-150..1e150 x initial '
    'affiliation kind (Dirichlet, blurred truth, one-hot, uniform, '
    'num_classes + seed, singleton leading axes) x iterations 1..5 x every '
    'trainer option (weight_constant_axis, covariance_norm/type, hermitize, '
    'saliency incl. zeros, source_activity_mask incl. all-inactive frames, '
    'affiliation_eps, eigenvalue_floor, stream weights, inline aligners). '
    'Non-trivial: the fit returned and (weights non-uniform by > 0.05 with at '
    'least one observation of max posterior < 0.99, or a degenerate data '
    'pattern, or |scale exponent| >= 50, or a mask with an inactive entry). '
    'Distinct = distinct recorded choice sequence.'
)


def tol_for(case):
    return 2e-3 if case.meta.get('single') else 1e-9


def check_valid(post, case, clause, *, eps=0.0, mask=None, tol=None):
    tol = tol_for(case) if tol is None else tol
    exp_shape = case.aff_shape
    require(np.shape(post) == exp_shape, f'{clause}-shape',
            f'{np.shape(post)} != {exp_shape}', kind=case.kind)
    post = np.asarray(post)
    if post.size == 0:
        return      # e.g. a mask that switches every source off in every frame
    require(np.all(np.isfinite(post)), f'{clause}-finite',
            f'{int(np.sum(~np.isfinite(post)))} non-finite values',
            kind=case.kind)
    require(post.min() >= -0.0 and post.max() <= 1 + 1e-12,
            f'{clause}-range', f'min {post.min()} max {post.max()}',
            kind=case.kind)
    s = post.sum(axis=-2)
    if mask is not None:
        inactive = ~mask
        require(np.all(post[inactive] == 0), f'{clause}-mask-zero',
                f'max posterior of an inactive source {post[inactive].max() if inactive.any() else 0}',
                kind=case.kind)
        all_off = ~mask.any(axis=-2)
        require(np.all(s[all_off] == 0), f'{clause}-mask-all-inactive',
                'non-zero column where every source is inactive',
                kind=case.kind)
        s = s[~all_off]
    bound = case.K * eps + tol * case.K
    require(s.size == 0 or np.max(np.abs(s - 1)) <= bound, f'{clause}-sum',
            lambda: f'max |sum_k - 1| = {np.max(np.abs(s - 1)):.3e} > {bound:.1e}',
            kind=case.kind)


def is_regular(case):
    return case.meta.get('profile') == 'regular' and \
        case.N >= 2 * case.D + 2


def class_mass_positive(aff, case):
    """every class has non-zero (saliency weighted) mass in every slice, and
    in every group of observations over which the mixture weights are pooled
    (weight_constant_axis)"""
    aff = np.broadcast_to(aff, case.aff_shape)
    s = case.opts.get('saliency')
    if s is not None:
        aff = aff * s[..., None, :]
    mass = aff.sum(axis=-1)
    if not (np.all(mass > 1e-200) and np.all(np.isfinite(mass))):
        return False
    wca = case.opts.get('weight_constant_axis', (-1,))
    nd = aff.ndim
    axes = [wca % nd] if isinstance(wca, int) else sorted(a % nd for a in wca)
    axes = tuple(a for a in axes if a != nd - 2)
    if axes:
        pooled = aff.sum(axis=axes)
        if not np.all(pooled > 1e-200):
            return False
    return True


def weights_positive(model):
    w = np.asarray(model.weight, dtype=np.float64)
    return bool(np.all(np.isfinite(w)) and np.all(w > 1e-280))


def _one(d, ctx, kinds, **gen_kw):
    case = mm.draw_case(d, kinds, degenerate=True, **gen_kw)
    ctx.describe(**case.describe())
    regular = is_regular(case)
    ctx.label(case.kind, f'data={case.meta["data"]}', f'init={case.meta["init"]}',
              f'wca={case.opts.get("weight_constant_axis")}',
              'single' if case.meta['single'] else 'double',
              'N<D' if case.N < case.D else 'N>=D',
              'regular' if regular else 'irregular')
    if case.meta.get('aligner'):
        ctx.label('aligner=' + case.meta['aligner'])
    if case.init is not None and not class_mass_positive(case.init, case):
        # outside the precondition "every class has non-zero mass"
        raise Borderline('initial class without mass')
    trace = []
    from pb_bss import _verif

    def cb(**kw):
        trace.append((kw['model'], np.array(kw['affiliation'], copy=True)))
    _verif.register(cb)
    try:
        model = ctx.lib(mm.fit, case, allow=() if regular else mm.EXPLICIT,
                        allow_if=mm.explicit_refusal,
                        clause='regular-input-raises')
    finally:
        _verif.unregister(cb)
    mask = case.opts.get('source_activity_mask')
    eps = case.opts.get('affiliation_eps', 0.0) or 0.0

    # in-loop affiliations (hook): the 2nd..nth are E-step results of the
    # model of the previous iteration
    if _verif.ENABLED:
        require(len(trace) == case.iterations, 'hook-fired',
                f'{len(trace)} reports for {case.iterations} iterations')
        for i in range(1, len(trace)):
            prev_model, _ = trace[i - 1]
            aff = trace[i][1]
            if not weights_positive(prev_model) or \
                    not class_mass_positive(trace[i - 1][1], case):
                raise Borderline('class mass vanished during EM')
            if mask is not None:
                # in-loop clipping happens after masking: judge only frames
                # with at least one active source
                keep = mask.any(axis=-2)
                sub = mm.Case(kind=case.kind, lead=(), K=case.K,
                              N=int(keep.sum()))
                sub.meta = case.meta
                a = np.moveaxis(np.moveaxis(aff, -2, 0)[:, keep], 0, -2)
                check_valid(a, sub, 'inloop', eps=eps)
            else:
                check_valid(aff, case, 'inloop', eps=eps)
        if len(trace) > 1:
            ctx.label('inloop-checked')
        if not class_mass_positive(trace[-1][1], case):
            raise Borderline('class mass vanished during EM')

    if not weights_positive(model):
        # EM drove a class to zero mass: outside the precondition
        raise Borderline('zero-mass class')

    post = ctx.lib(mm.predict, model, case, allow=() if regular else mm.EXPLICIT,
                   allow_if=mm.explicit_refusal, clause='predict-raises')
    if case.kind == 'cbmm' and not np.all(np.isfinite(post)):
        lam = np.asarray(model.complex_bingham.covariance_eigenvalues)
        if np.any(lam < -1e6):
            # numerically rank-deficient class scatter: the unbounded Bingham
            # concentration (-1/eigenvalue) overflows the normaliser
            raise Violation(
                'cbmm-non-finite-posterior-for-rank-deficient-scatter',
                f'Bingham eigenvalues down to {lam.min():.3e}; '
                f'{int(np.sum(~np.isfinite(post)))} non-finite posteriors',
                kind='cbmm', scatter='numerically-rank-deficient')
    check_valid(post, case, 'predict', mask=mask)

    # Bayes rule from the component log_pdf and the stored weights
    lp = ctx.lib(mm.component_log_pdf, model, case, clause='log_pdf-raises')
    if np.any(np.isnan(lp)) or np.any(lp == np.inf):
        # the right hand side of Bayes' rule is undefined (density overflow
        # of a collapsed component); the validity predicate above still held
        raise Borderline('component density overflow')
    ref = mm.bayes_posterior(model, case, mask=mask, log_pdf=lp)
    err = float(np.max(np.abs(ref - post))) if post.size else 0.0
    require(err <= tol_for(case), 'posterior-is-bayes-rule',
            f'max |predict - Bayes| = {err:.3e}', kind=case.kind)

    # a buffer the caller refills between two calls: the posterior belongs to
    # the content handed over, not to the array object (frames in reverse
    # order -> posterior columns in reverse order)
    # (only for weights that do not depend on the frame index)
    w_frames = np.shape(mm.weight_broadcast(model, case))
    frame_free = len(w_frames) == 0 or w_frames[-1] == 1
    # and away from the numerical guards, where rounding differences between
    # vector positions are amplified by 1/floor
    guard = mm.ill_conditioned(model, case)
    if case.meta.get('single') and hasattr(model, 'cacg'):
        # single precision: rounding 6e-8 times 1/eigenvalue must stay below
        # the tolerance
        lam = np.asarray(model.cacg.covariance_eigenvalues, dtype=np.float64)
        guard = guard or bool(np.any(lam < 1e-3 * lam.max(axis=-1, keepdims=True)))
    if case.N >= 2 and frame_free and np.all(np.isfinite(post)) and not guard:
        buf = np.array(case.y)
        ebuf = None if case.emb is None else np.array(case.emb)
        p_a = ctx.lib(mm.predict, model, case, y=buf, emb=ebuf, with_mask=False,
                      allow=mm.EXPLICIT, clause='predict-raises')
        buf[...] = buf[..., ::-1, :].copy()
        if ebuf is not None:
            ebuf[...] = ebuf[..., ::-1, :].copy()
        p_b = ctx.lib(mm.predict, model, case, y=buf, emb=ebuf, with_mask=False,
                      allow=mm.EXPLICIT, clause='predict-raises')
        if np.all(np.isfinite(p_a)) and np.all(np.isfinite(p_b)):
            err = float(np.max(np.abs(p_b - p_a[..., ::-1])))
            require(err <= tol_for(case), 'posterior-of-a-refilled-buffer-is-not-that-of-its-content',
                    f'max deviation {err:.3e}', kind=case.kind)

    if case.kind == 'cacgmm':
        # the documented second return value: the quadratic forms z^H B^-1 z
        aff_q, q = ctx.lib(model.predict, case.y, return_quadratic_form=True,
                           source_activity_mask=mask)
        require(np.array_equal(aff_q, post), 'return_quadratic_form-changes-posterior', '')
        require(np.shape(q) == case.aff_shape, 'quadratic_form-shape', f'{np.shape(q)}')
        z = mm.normalize(np.asarray(case.y, dtype=np.complex128))
        cov = mm.params(model, case)['cacg_covariance']
        lam = np.asarray(model.cacg.covariance_eigenvalues, dtype=np.float64)
        well = lam.min() > 1e-6 * lam.max()
        if well and not case.meta['single']:
            for idx in np.ndindex(*case.lead):
                for k in range(case.K):
                    ref_q = np.einsum('nd,nd->n', z[idx].conj(),
                                      np.linalg.solve(cov[idx][k], z[idx].T).T).real
                    nz = np.linalg.norm(z[idx], axis=-1) > 0
                    require(np.allclose(np.asarray(q)[idx][k][nz], ref_q[nz], rtol=1e-6),
                            'quadratic_form-is-not-z^H-B^-1-z', f'idx={idx} k={k}')

    # fit_predict returns the same array
    fp = ctx.lib(mm.fit, case, method='fit_predict', allow=mm.EXPLICIT)
    check_valid(fp, case, 'fit_predict', mask=mask)
    require(np.allclose(fp, post, rtol=0, atol=1e-12), 'fit_predict-equals-predict',
            f'max diff {np.max(np.abs(fp - post)):.3e}', kind=case.kind)

    wb = np.broadcast_to(mm.weight_broadcast(model, case), post.shape)
    nonuniform = float(np.max(np.abs(wb - 1.0 / case.K))) > 0.05
    soft = bool(np.any(post.max(axis=-2) < 0.99))
    ctx.nontrivial(
        (nonuniform and soft) or case.meta['data'] != 'none'
        or abs(case.meta['scale_exp']) >= 50
        or (mask is not None and not mask.all()))


def _make(kind, quick, thorough, **gen_kw):
    @subcheck(SUBCHECKS, f'posterior_{kind}', quick=quick, thorough=thorough)
    def fn(d, ctx, _kind=kind, _kw=gen_kw):
        _one(d, ctx, [_kind], **_kw)
    return fn


_make('cacgmm', 500, 9000)
_make('cwmm', 350, 6000)
_make('cbmm', 100, 1500, max_N=20, max_K=3, max_iterations=2, max_lead=1)
_make('gmm', 350, 6000)
_make('vmfmm', 300, 5000)
_make('gcacgmm', 300, 5000, max_N=25, max_K=4)
_make('vmfcacgmm', 300, 5000, max_N=25, max_K=4)


# --------------------------------------------------------------------------
# initializers
# --------------------------------------------------------------------------

@subcheck(SUBCHECKS, 'initializers_iid', quick=300, thorough=5000, fuzz=3000)
def initializers_iid(d, ctx):
    from pb_bss.initializer import iid
    name = d.choice(['uniform_normalized', 'dirichlet_uniform', 'dirichlet',
                     'one_hot'])
    lead = tuple(d.int(1, 3) for _ in range(d.int(0, 2)))
    K, N, D = d.int(1, 6), d.int(1, 20), d.int(2, 8)
    pf = d.bool()
    seed = d.int(0, 2 ** 16)
    Y = np.ones((*lead, N, D))
    kw = {}
    if name == 'dirichlet':
        kw['alpha'] = d.choice([0.1, 1, 5.0])
    np.random.seed(seed)
    out = ctx.lib(getattr(iid, name), Y, K, permutation_free=pf, **kw)
    ctx.describe(initializer=name, lead=lead, K=K, N=N, permutation_free=pf)
    case = mm.Case(kind='init', lead=lead, K=K, N=N)
    case.meta['single'] = False
    check_valid(out, case, name)
    if name == 'one_hot':
        require(np.all((out == 0) | (out == 1)), 'one_hot-binary', '')
    if pf and len(lead):
        first = out[(0,) * len(lead)]
        require(np.all(out == first), 'permutation_free-identical-slices', '')
    ctx.nontrivial(K >= 2)
    ctx.label(name, f'pf={pf}', f'lead={len(lead)}')


@subcheck(SUBCHECKS, 'initializer_flag', quick=300, thorough=5000, fuzz=3000)
def initializer_flag(d, ctx):
    from pb_bss.initializer import deterministic
    lead = tuple(d.int(1, 3) for _ in range(d.int(0, 2)))
    K = d.int(1, 6)
    N = d.int(K, 30)
    D = d.int(2, 5)
    use_min = d.bool()
    Y = np.ones((*lead, N, D))
    if use_min:
        m = d.float(0.0, 1.0) * (1.0 / K)
        if not (0 < m < 1.0 / K):
            m = 0.5 / K
        out = ctx.lib(deterministic.flag, Y, K, permutation_free=True, minimum=m)
    else:
        m = 0.0
        out = ctx.lib(deterministic.flag, Y, K, permutation_free=True)
    ctx.describe(lead=lead, K=K, N=N, minimum=m)
    case = mm.Case(kind='init', lead=lead, K=K, N=N)
    case.meta['single'] = False
    check_valid(out, case, 'flag', tol=1e-12)
    top = 1 - (K - 1) * m
    ulp = 8 * np.finfo(float).eps
    # each frame has exactly one assigned class
    big = np.isclose(out, top, rtol=0, atol=ulp)
    small = np.isclose(out, m, rtol=0, atol=ulp)
    if K > 1 and abs(top - m) > 100 * ulp:
        require(np.all(big.sum(-2) == 1), 'flag-one-assigned-class',
                f'minimum={m} K={K}: assigned-count {np.unique(big.sum(-2))}')
        require(np.all(small.sum(-2) == K - 1), 'flag-minimum-exact',
                f'minimum={m} K={K}: values {np.unique(out)[:6]}')
        # segments in order, contiguous, every class used
        lab = np.argmax(out, axis=-2)
        require(np.all(np.diff(lab, axis=-1) >= 0), 'flag-ordered-segments', '')
        require(np.all(lab[..., 0] == 0) and np.all(lab[..., -1] == K - 1),
                'flag-all-classes-used', f'{lab.reshape(-1, N)[0].tolist()}')
    ctx.nontrivial(K >= 2 and use_min)
    ctx.label(f'K={K}', 'minimum' if use_min else 'hard')


@subcheck(SUBCHECKS, 'initializer_deflation', quick=64, thorough=600,
          min_nontrivial=0.0)
def initializer_deflation(d, ctx):
    from pb_bss.initializer import deflation
    F = d.choice([257, 513])
    T = d.int(11, 16)
    D = d.int(2, 4)
    K = d.int(2, 4)   # deflation extracts K-1 sources; K = 1 is not a use case
    pf = d.bool()
    neighbors = d.int(1, 5)
    rng = d.rng()
    Y = (rng.normal(size=(F, T, D)) + 1j * rng.normal(size=(F, T, D)))
    if d.bool():
        Y[:, d.int(0, T - 1), :] = 0
    kw = {}
    sal_kind = d.choice(['default', 'given', 'given-with-zeros'])
    if sal_kind != 'default':
        sal = rng.uniform(0.1, 2, size=(F, T))
        if sal_kind == 'given-with-zeros':
            sal[:, d.int(0, T - 1)] = 0
        kw['saliencies'] = sal
    transform = d.choice(['none', 'none', 'square', 'saliency-weighted'])
    if transform == 'square':
        kw['similarity_transform'] = lambda sim, sal_: sim ** 2
    elif transform == 'saliency-weighted':
        kw['similarity_transform'] = lambda sim, sal_: sim * (sal_ > 0)
    out = ctx.lib(deflation.deflationSeed, Y, K, permutation_free=pf,
                  neighbors=neighbors, eps=d.choice([0, 1e-6]), **kw)
    ctx.describe(F=F, T=T, D=D, K=K, permutation_free=pf, neighbors=neighbors,
                 saliencies=sal_kind, similarity_transform=transform)
    # documented shape (K, F, T): the class axis comes first
    require(np.shape(out) == (K, F, T), 'deflation-shape', f'{np.shape(out)}')
    out = np.asarray(out)
    require(np.all(np.isfinite(out)), 'deflation-finite',
            f'{int(np.sum(~np.isfinite(out)))} non-finite')
    require(out.min() >= 0 and out.max() <= 1 + 1e-12, 'deflation-range',
            f'{out.min()} {out.max()}')
    require(np.max(np.abs(out.sum(0) - 1)) <= 1e-9, 'deflation-sum',
            f'{np.max(np.abs(out.sum(0) - 1))}')
    ctx.nontrivial(K >= 2)
    ctx.label(f'F={F}', f'K={K}')


# --------------------------------------------------------------------------
# predict on directly constructed models (arbitrary parameters, not fitted)
# --------------------------------------------------------------------------

@subcheck(SUBCHECKS, 'predict_constructed_model', quick=500, thorough=9000)
def predict_constructed_model(d, ctx):
    import pb_bss.distribution as dist
    from pbv import gen
    kind = d.choice(['cacgmm', 'cacgmm', 'cwmm', 'cbmm', 'gmm', 'vmfmm'])
    lead = tuple(d.int(1, 3) for _ in range(d.int(0, 1)))
    K, D, N = d.int(1, 5), d.int(2, 8 if kind != 'cbmm' else 5), d.int(1, 12)
    single = d.int(0, 2) == 0
    rng = d.rng()
    w = rng.dirichlet(np.ones(K) * d.choice([0.3, 1.0, 5.0]), size=lead)[..., None]
    if d.epoch >= 3 and K >= 2 and d.aux(11).integers(0, 4) == 0:
        # "whenever every class has non-zero mass": stored weights of any
        # positive size (1e-30..1) - a class that is almost, not entirely, gone
        # and still the most likely one for the observations on its prototype
        w = 10.0 ** d.aux(12).uniform(-30, 0, size=np.shape(w))
        w = w / w.sum(axis=-2, keepdims=True)
    case = mm.Case(kind=kind, lead=lead, K=K, D=D, N=N)
    case.meta.update(single=single)
    mask = None
    if kind in ('cacgmm', 'cwmm', 'cbmm'):
        y = gen.cnormal(rng, (*lead, N, D))
        protos = gen.unit(gen.cnormal(rng, (*lead, K, D)))
        # some observations right on a class prototype (extreme log-pdf gaps)
        for n in range(N):
            if rng.uniform() < 0.5:
                k = rng.integers(K)
                y[..., n, :] = protos[..., k, :] * (1 + 1e-3 * y[..., n, :])
        y = y * 10 ** rng.uniform(-3, 3, size=(*lead, N, 1))
        if single:
            y = y.astype(np.complex64)
    else:
        y = rng.normal(size=(*lead, N, D)) * 2
        if single:
            y = y.astype(np.float32)
    # degenerate frames and magnitudes (decisions from a second stream of the
    # recorded seed: committed replays keep their meaning)
    aux = np.random.default_rng([[c[1] for c in d.choices if c[0] == 's'][-1], 778])
    degenerate = ['none', 'none', 'zero-frame', 'all-zero', 'huge-and-tiny'][int(aux.integers(0, 5))]
    if degenerate == 'zero-frame':
        y[..., int(aux.integers(0, N)), :] = 0
    elif degenerate == 'all-zero':
        y[...] = 0
    elif degenerate == 'huge-and-tiny':
        e = 15 if single else 140     # squares must stay inside the range of the dtype
        y = (y * 10.0 ** aux.uniform(-e, e, size=(*lead, N, 1))).astype(y.dtype)
    case.meta['data'] = degenerate
    rd = np.float32 if single else np.float64
    if kind == 'cacgmm':
        cond = d.log10(0, 10)
        V = np.empty((*lead, K, D, D), dtype=np.complex128)
        lam = np.empty((*lead, K, D))
        for idx in np.ndindex(*lead, K):
            V[idx] = gen.haar_unitary(rng, D)
            V[idx][:, -1] = protos[idx]
            V[idx] = np.linalg.qr(V[idx][:, ::-1])[0][:, ::-1]
            lam[idx] = np.sort(gen.spectrum(rng, D, cond))
        cacg = dist.ComplexAngularCentralGaussian(
            covariance_eigenvectors=V.astype(np.complex64 if single else np.complex128),
            covariance_eigenvalues=lam.astype(rd))
        model = dist.CACGMM(weight=w.astype(rd), cacg=cacg)
        if d.bool():
            mask = rng.uniform(size=(*lead, K, N)) > 0.4
            if d.bool():
                mask[..., :, 0] = False
            case.opts['source_activity_mask'] = mask
        ctx.describe(kind=kind, lead=lead, K=K, D=D, N=N, single=single,
                     cond=cond, mask=mask is not None)
    elif kind == 'cwmm':
        kappa = 10 ** rng.uniform(-3, np.log10(500), size=(*lead, K))
        model = dist.CWMM(weight=w, complex_watson=dist.ComplexWatson(
            mode=protos, concentration=kappa))
        ctx.describe(kind=kind, lead=lead, K=K, D=D, N=N, single=single)
    elif kind == 'cbmm':
        from pb_bss.distribution.complex_bingham import ComplexBingham
        V = np.empty((*lead, K, D, D), dtype=np.complex128)
        lam = np.empty((*lead, K, D))
        for idx in np.ndindex(*lead, K):
            V[idx] = gen.haar_unitary(rng, D)
            e = -np.concatenate([[0.0], np.cumsum(10 ** rng.uniform(-1, 1.3, size=D - 1))])
            if aux.integers(0, 3) == 0 and D >= 2:
                # runs of equal eigenvalues (pairs, triples, ... all equal)
                run = int(aux.integers(2, D + 1))
                start = int(aux.integers(0, D - run + 1))
                e[start:start + run] = e[start]
                e = e - e.max()
            lam[idx] = rng.permutation(e)          # any order of the eigenvalues
        model = dist.CBMM(weight=w, complex_bingham=ComplexBingham(V, lam))
        ctx.describe(kind=kind, lead=lead, K=K, D=D, N=N, single=False)
        y = y.astype(np.complex128)
        case.meta['single'] = False
    elif kind == 'gmm':
        cond = d.log10(0, 6)
        cov = gen.spd(rng, D, cond, 1.0, (*lead, K))
        mean = rng.normal(size=(*lead, K, D)) * 3
        model = dist.GMM(weight=w, gaussian=dist.Gaussian(mean=mean, covariance=cov))
        ctx.describe(kind=kind, lead=lead, K=K, D=D, N=N, single=single, cond=cond)
    else:
        kappa = 10 ** rng.uniform(-6, np.log10(500), size=(*lead, K))
        mean = gen.unit(rng.normal(size=(*lead, K, D)))
        model = dist.VMFMM(weight=w, vmf=dist.VonMisesFisher(mean=mean, concentration=kappa))
        ctx.describe(kind=kind, lead=lead, K=K, D=D, N=N, single=single)
    case.y = y
    post = ctx.lib(mm.predict, model, case)
    if kind == 'cbmm' and not np.all(np.isfinite(post)):
        srt = np.sort(lam, axis=-1)
        longest = 1
        for row in srt.reshape(-1, srt.shape[-1]):
            cur = 1
            for a, b in zip(row[:-1], row[1:]):
                cur = cur + 1 if b - a <= 1e-6 else 1
                longest = max(longest, cur)
        if longest >= 3:
            # three or more (nearly) equal Bingham eigenvalues: the closed form
            # of the normaliser (sum of terms 1/prod(differences), differences
            # forced to 1e-8) cancels catastrophically - same root cause as the
            # known finding of C07
            raise Violation(
                'cbmm-non-finite-posterior-for-repeated-bingham-eigenvalues',
                f'{int(np.sum(~np.isfinite(post)))} non-finite posteriors; eigenvalues '
                f'{np.round(srt.reshape(-1, srt.shape[-1])[0], 6).tolist()}',
                kind='cbmm', D=int(srt.shape[-1]), run=int(longest))
    check_valid(post, case, 'predict', mask=mask)
    # a model object is not changed by being used: the second call agrees
    again = ctx.lib(mm.predict, model, case)
    require(np.array_equal(post, again, equal_nan=True), 'second-predict-differs',
            f'max diff {np.max(np.abs(post - again)):.3e}', kind=kind)
    lp = ctx.lib(mm.component_log_pdf, model, case)
    if np.any(np.isnan(lp)) or np.any(lp == np.inf):
        raise Borderline('component density overflow')
    ref = mm.bayes_posterior(model, case, mask=mask, log_pdf=lp)
    err = float(np.max(np.abs(ref - post)))
    require(err <= tol_for(case), 'posterior-is-bayes-rule',
            f'max |predict - Bayes| = {err:.3e}', kind=kind)
    ctx.nontrivial(K >= 2)
    ctx.label(kind, 'single' if single else 'double',
              'mask' if mask is not None else 'no-mask', 'frames=' + degenerate)
