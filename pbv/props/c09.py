"""C09 - fitted parameters stay inside their documented domain."""
import numpy as np

from pbv import gen, mm
from pbv.core import Borderline, Rejected, Violation, require, subcheck
from pbv.props.c01 import class_mass_positive

SUBCHECKS = []
RULE = (
    'Same generator as C01 (all seven mixture trainers, degenerate data '
    'families: zero / duplicated / collinear / too few frames, all zero; '
    'scales 1e-150..1e150; hard one-hot and soft starts; every option) plus '
    'the single-distribution trainers (cACG, Watson, vMF, Gaussian x3, '
    'Bingham, complex Gaussian) on the same data families. Non-trivial: the '
    'fit returned and (data degenerate, or N < 2D, or hard start, or a '
    'non-default option is set). Distinct = distinct recorded choice '
    'sequence.'
)


def _tol(single):
    return 5e-3 if single else 1e-8


def check_weights(model, case, check_mask_deficit=True, first=False):
    w = np.asarray(model.weight, dtype=np.float64)
    kind = case.kind
    require(np.all(np.isfinite(w)), 'weight-finite', f'{w.ravel()[:6]}',
            kind=kind)
    require(np.all(w >= 0), 'weight-nonnegative', f'min {w.min()}', kind=kind)
    K = case.K
    eps = case.opts.get('affiliation_eps', 0.0) or 0.0
    wca = case.opts.get('weight_constant_axis', (-1,))
    nd = len(case.aff_shape)
    if kind in mm.INTEGRATION:
        axes = sorted(a % 3 for a in wca)
        full = [case.lead[0], K, case.N]
        if 1 in axes:
            exp_shape = ()
        else:
            exp_shape = tuple(full[i] for i in range(3) if i not in axes)
        require(w.shape == exp_shape, 'weight-shape',
                f'{w.shape} expected {exp_shape} for axis {wca}', kind=kind)
        cax = mm.weight_class_axis(model, case)
    else:
        if isinstance(wca, int):
            axes = [wca % nd]
        else:
            axes = sorted(a % nd for a in wca)
        if axes == [nd - 2]:
            exp_shape = (K, 1)
        else:
            exp_shape = tuple(1 if i in axes else s
                              for i, s in enumerate(case.aff_shape))
        require(w.shape == exp_shape, 'weight-shape',
                f'{w.shape} expected {exp_shape} for axis {wca}', kind=kind)
        cax = -2
    if cax is None:
        require(np.allclose(w, 1.0 / K), 'weight-uniform', f'{w}', kind=kind)
    else:
        s = w.sum(axis=cax)
        zero = s == 0
        if np.any(zero):
            raise Borderline('frames without any weight (zero saliency)')
        tol = 1e-5 if case.meta.get('single') else 1e-9
        expected = 1.0
        mask = case.opts.get('source_activity_mask')
        if kind == 'cacgmm' and mask is not None and \
                case.opts.get('saliency') is None and check_mask_deficit \
                and not first and axes != [nd - 2]:
            # frames in which the mask declares every source inactive carry
            # an all-zero affiliation column, so the mean affiliation sums to
            # the fraction of frames with an active source
            active = mask.any(axis=-2, keepdims=True).astype(np.float64)
            expected = np.mean(active, axis=tuple(axes), keepdims=True).sum(axis=-2)
        require(np.max(np.abs(s - expected)) <= K * eps + tol * K, 'weight-sum',
                f'max |sum-expected| {np.max(np.abs(s - expected)):.3e}',
                kind=kind)
        if np.any(np.asarray(expected) < 1 - 1e-12):
            raise Violation(
                'weight-sum-below-one',
                f'class weights sum to {float(np.min(s)):.4f} (= fraction of '
                f'frames with an active source)', kind=kind,
                cause='mask-with-all-inactive-frames')


def check_cacg(cacg, D, norm, floor, single, kind):
    V = np.asarray(cacg.covariance_eigenvectors)
    lam = np.asarray(cacg.covariance_eigenvalues, dtype=np.float64)
    tol = _tol(single)
    require(np.all(np.isfinite(V)) and np.all(np.isfinite(lam)),
            'cacg-finite', 'NaN/Inf in eigen-decomposition', kind=kind)
    gram = np.einsum('...dk,...dl->...kl', V.conj(), V)
    err = float(np.max(np.abs(gram - np.eye(D))))
    require(err <= (1e-3 if single else 1e-8), 'cacg-eigenvectors-unitary',
            f'max |V^H V - I| = {err:.3e}', kind=kind)
    mx = lam.max(axis=-1)
    mn = lam.min(axis=-1)
    rt = 1e-5 if single else 1e-12
    if norm == 'eigenvalue':
        require(np.all(np.abs(mx - 1) <= rt), 'cacg-eigenvalue-max-one',
                f'max eigenvalue in [{mx.min()}, {mx.max()}]', kind=kind)
        require(np.all(mn >= floor * (1 - rt)), 'cacg-eigenvalue-floor',
                f'min eigenvalue {mn.min()} < floor {floor}', kind=kind)
    elif norm == 'trace':
        tr = lam.sum(axis=-1)
        lo = 1 - (1e-4 if single else 1e-9)
        hi = 1 + D * floor + (1e-4 if single else 1e-9)
        require(np.all((tr >= lo) & (tr <= hi)), 'cacg-unit-trace',
                f'trace in [{tr.min()}, {tr.max()}]', kind=kind)
        require(np.all(mn >= floor * mx * (1 - rt)) and np.all(mn > 0),
                'cacg-eigenvalue-floor', f'min {mn.min()} max {mx.max()}',
                kind=kind)
    else:
        require(np.all(mn >= floor * mx * (1 - rt)) and np.all(mn > 0),
                'cacg-eigenvalue-floor', f'min {mn.min()} max {mx.max()}',
                kind=kind)


def check_watson(w, max_conc, single, kind):
    mode = np.asarray(w.mode)
    c = np.asarray(w.concentration, dtype=np.float64)
    require(np.all(np.isfinite(mode)) and np.all(np.isfinite(c)),
            'watson-finite', 'NaN/Inf', kind=kind)
    n = np.linalg.norm(mode, axis=-1)
    require(np.all(np.abs(n - 1) <= (1e-4 if single else 1e-9)),
            'watson-mode-unit-norm', f'norms in [{n.min()}, {n.max()}]',
            kind=kind)
    require(np.all(c >= 0) and np.all(c <= max_conc * (1 + 1e-12)),
            'watson-concentration-range',
            f'[{c.min()}, {c.max()}] not in [0, {max_conc}]', kind=kind)


def check_vmf(v, lo, hi, single, kind):
    mean = np.asarray(v.mean)
    c = np.asarray(v.concentration, dtype=np.float64)
    require(np.all(np.isfinite(mean)) and np.all(np.isfinite(c)),
            'vmf-finite', 'NaN/Inf', kind=kind)
    n = np.linalg.norm(mean, axis=-1)
    ok = (np.abs(n - 1) <= (1e-4 if single else 1e-9)) | (n == 0)
    require(np.all(ok), 'vmf-mean-unit-norm',
            f'norms in [{n.min()}, {n.max()}]', kind=kind)
    require(np.all(c >= lo * (1 - 1e-6)) and np.all(c <= hi * (1 + 1e-6)),
            'vmf-concentration-range',
            f'[{c.min()}, {c.max()}] not in [{lo}, {hi}]', kind=kind)


def check_gaussian(g, ctype, kind):
    mean = np.asarray(g.mean)
    cov = np.asarray(g.covariance)
    require(np.all(np.isfinite(mean)) and np.all(np.isfinite(cov)),
            'gaussian-finite', 'NaN/Inf', kind=kind)
    if ctype == 'full':
        asym = np.max(np.abs(cov - np.swapaxes(cov, -1, -2)))
        scale = max(float(np.max(np.abs(cov))), 1e-300)
        require(asym <= 1e-9 * scale, 'gaussian-covariance-symmetric',
                f'asymmetry {asym:.3e} scale {scale:.3e}', kind=kind)
        ev = np.linalg.eigvalsh((cov + np.swapaxes(cov, -1, -2)) / 2)
        # the library's criterion is a successful Cholesky factorisation;
        # allow rounding-level negative eigenvalues of numerically singular
        # matrices
        require(np.all(ev.min(axis=-1) > -1e-9 * np.abs(ev).max(axis=-1)),
                'gaussian-covariance-positive-definite',
                f'min eigenvalue {ev.min():.3e} max {ev.max():.3e}', kind=kind)
    else:
        require(np.all(cov > 0), 'gaussian-covariance-positive-definite',
                f'min variance {cov.min():.3e}', kind=kind)


def check_bingham(b, max_conc, kind, eps=1e-8):
    lam = np.asarray(b.covariance_eigenvalues, dtype=np.float64)
    V = np.asarray(b.covariance_eigenvectors)
    # eigenvalues clipped at -max_concentration coincide; the trainer separates
    # coinciding eigenvalues by its ``eignevalue_eps`` each (documented:
    # "not optimal, but an error of 1e-8"), which lifts every larger
    # eigenvalue - the maximum too - by at most (D-1)*eps
    tol = max(1e-6, 2 * lam.shape[-1] * float(eps))
    require(np.all(np.isfinite(lam)) and np.all(np.isfinite(V)),
            'bingham-finite', 'NaN/Inf', kind=kind)
    mx = lam.max(axis=-1)
    require(np.all(np.abs(mx) <= tol), 'bingham-max-eigenvalue-zero',
            f'max eigenvalue in [{mx.min()}, {mx.max()}]', kind=kind)
    require(np.all(lam <= tol), 'bingham-eigenvalues-nonpositive',
            f'{lam.max()}', kind=kind)
    if np.isfinite(max_conc):
        require(np.all(lam >= -max_conc - tol), 'bingham-concentration-bound',
                f'min {lam.min()} < -{max_conc}', kind=kind)
    D = V.shape[-1]
    gram = np.einsum('...dk,...dl->...kl', V.conj(), V)
    # (eigenvectors come in the precision of the scatter matrix: single for
    # single-precision observations weighted by a boolean / integer partition)
    utol = 1e-3 if np.asarray(V).dtype == np.complex64 else 1e-8
    err = float(np.max(np.abs(gram - np.eye(D))))
    require(err <= utol, 'bingham-eigenvectors-unitary', f'max |V^H V - I| = {err:.3e}',
            kind=kind)


def check_model(model, case, first=False):
    kind = case.kind
    single = bool(case.meta.get('single'))
    o = case.opts
    check_weights(model, case, first=first)
    if kind in ('cacgmm', 'gcacgmm', 'vmfcacgmm'):
        check_cacg(model.cacg, case.D, o.get('covariance_norm', 'eigenvalue'),
                   o.get('eigenvalue_floor', 1e-10), single, kind)
    if kind == 'cwmm':
        check_watson(model.complex_watson,
                     case.trainer_kwargs.get('max_concentration', 500),
                     single, kind)
    if kind == 'cbmm':
        check_bingham(model.complex_bingham,
                      case.trainer_kwargs.get('max_concentration', np.inf), kind,
                      eps=case.trainer_kwargs.get('eigenvalue_eps', 1e-8))
    if kind in ('gmm', 'gcacgmm'):
        check_gaussian(model.gaussian, o.get(
            'covariance_type', 'full' if kind == 'gmm' else 'spherical'), kind)
    if kind in ('vmfmm', 'vmfcacgmm'):
        check_vmf(model.vmf, o.get('min_concentration', 1e-10),
                  o.get('max_concentration', 500), single, kind)


def _one(d, ctx, kinds, **gen_kw):
    case = mm.draw_case(d, kinds, degenerate=True, long_share=6, **gen_kw)
    ctx.describe(**case.describe())
    regular = case.meta.get('profile') == 'regular' and case.N >= 2 * case.D + 2
    ctx.label(case.kind, f'data={case.meta["data"]}', f'init={case.meta["init"]}',
              'regular' if regular else 'irregular',
              f'norm={case.opts.get("covariance_norm")}' if 'covariance_norm' in case.opts else 'norm=n/a')
    if case.init is not None and not class_mass_positive(case.init, case):
        raise Borderline('initial class without mass')
    trace = []
    from pb_bss import _verif

    def cb(**kw):
        trace.append((kw['model'], kw['affiliation']))
    # "every fitted model": also the one fit_predict trains and does not hand
    # out (observed through the hook after every M-step, like the in-loop
    # models of fit)
    method = 'fit'
    if hasattr(mm.trainer_cls(case.kind), 'fit_predict') and \
            d.aux(97).integers(0, 4) == 0:
        method = 'fit_predict'
    ctx.label('via-' + method)
    _verif.register(cb)
    try:
        model = ctx.lib(mm.fit, case, method=method,
                        allow=() if regular else mm.EXPLICIT,
                        allow_if=mm.explicit_refusal,
                        clause='regular-input-raises')
    finally:
        _verif.unregister(cb)
    if method == 'fit_predict':
        if len(trace) != case.iterations:
            raise Borderline('fit_predict: models not observable (hook off)')
        model = trace[-1][0]
    # the precondition "positive class mass" must hold for every M-step
    for _, aff in trace:
        if not class_mass_positive(aff, case):
            raise Borderline('class mass vanished during EM')
    # every intermediate model obeys the domain as well
    for i, (m_i, _) in enumerate(trace[:-1]):
        check_model(m_i, case, first=(i == 0))
    check_model(model, case, first=(case.iterations == 1))
    ctx.nontrivial(
        case.meta['data'] != 'none' or case.N < 2 * case.D
        or case.meta['init'].startswith('onehot')
        or any(k in case.opts for k in ('saliency', 'source_activity_mask'))
        or case.opts.get('weight_constant_axis') not in ((-1,), None))


def _make(kind, quick, thorough, **gen_kw):
    @subcheck(SUBCHECKS, f'domain_{kind}', quick=quick, thorough=thorough)
    def fn(d, ctx, _kind=kind, _kw=gen_kw):
        _one(d, ctx, [_kind], **_kw)
    return fn


_make('cacgmm', 500, 9000)
_make('cwmm', 350, 6000)
_make('cbmm', 100, 1500, max_N=20, max_K=3, max_iterations=2, max_lead=1)
_make('gmm', 350, 6000)
_make('vmfmm', 300, 5000)
_make('gcacgmm', 300, 5000, max_N=25, max_K=4)
_make('vmfcacgmm', 300, 5000, max_N=25, max_K=4)


@subcheck(SUBCHECKS, 'hard_partitions_long_signals', quick=160, thorough=2500)
def hard_partitions_long_signals(d, ctx):
    """"all initial affiliations with positive class mass (including hard
    one-hot ones)", on signals of utterance length: the partition stored as the
    caller has it - boolean, 8/16/64-bit integers, single or double precision -
    and a saliency (if any) as a selection of frames in the same kinds of
    dtype.  Hundreds of frames per class: counts that do not fit 8 bits."""
    kind = d.choice(['cwmm', 'gmm', 'vmfmm', 'cacgmm', 'gcacgmm', 'vmfcacgmm', 'cbmm'])
    K = d.int(2, 3)
    D = d.int(2, 4) if kind != 'cbmm' else d.int(2, 3)
    N = d.int(150, 200) * d.int(1, 3)
    lead = (d.int(1, 2),) if (kind in mm.INTEGRATION or d.bool()) else ()
    rng = d.rng()
    case = mm.Case(kind=kind, lead=lead, K=K, D=D, N=N,
                   iterations=d.int(1, 2 if kind == 'cbmm' else 3))
    complex_ = not mm.real_kind(kind)
    case.y, labels = mm.cluster_data(rng, lead, K, N, D, complex_, d.choice([0.1, 0.5]))
    if kind in mm.INTEGRATION:
        case.E = 3
        case.emb = rng.normal(size=(*lead, N, 3)) + labels[..., None]
    # uneven class sizes, every class present
    lab = np.where(rng.uniform(size=(*lead, N)) < 0.6, 0, rng.integers(0, K, size=(*lead, N)))
    lab[..., :K] = np.arange(K)
    onehot = lab[..., None, :] == np.arange(K)[:, None]
    idt = d.choice([np.int8, np.uint8, np.bool_, np.int16, np.int64, np.float32, np.float64])
    if kind in mm.INTEGRATION and np.dtype(idt).kind != 'f':
        # the integration trainers normalise the start in place: they take
        # floating-point partitions only (integer ones end in a casting error)
        idt = np.float32 if np.dtype(idt).itemsize <= 2 else np.float64
    case.init = onehot.astype(idt)
    case.meta['single'] = np.dtype(idt) == np.float32
    o = {}
    skind = d.choice(['none', 'none', 'bool', 'int8', 'float'])
    if skind == 'bool':
        sal = rng.uniform(size=(*lead, N)) < 0.8
        sal[..., :K] = True
        o['saliency'] = sal
    elif skind == 'int8':
        o['saliency'] = rng.integers(1, 4, size=(*lead, N)).astype(np.int8)
    elif skind == 'float':
        o['saliency'] = rng.uniform(0.2, 2.0, size=(*lead, N))
    wca = d.choice(mm.weight_axis_options(kind, len(lead)))
    o['weight_constant_axis'] = wca
    case.opts = o
    case.meta.update(init='onehot:' + np.dtype(idt).name, data='none', profile='long')
    ctx.describe(**case.describe())
    ctx.label(kind, 'init=' + np.dtype(idt).name, 'saliency=' + skind)
    if not class_mass_positive(case.init.astype(float), case):
        raise Borderline('initial class without mass (in a group of pooled observations)')
    trace = []
    from pb_bss import _verif

    def cb(**kw):
        trace.append((kw['model'], kw['affiliation']))
    _verif.register(cb)
    try:
        model = ctx.lib(
            mm.fit, case, clause='raises',
            allow_if=lambda e: mm.explicit_refusal(e) or (
                # a dtype the trainer does not take (no floating-point view of
                # an 8-bit saliency): refused, if only by the casting rules
                skind == 'int8' and 'finfo' in str(e)))
    finally:
        _verif.unregister(cb)
    for _, aff in trace:
        if not class_mass_positive(aff, case):
            raise Borderline('class mass vanished during EM')
    for i, (m_i, _) in enumerate(trace[:-1]):
        check_model(m_i, case, first=(i == 0))
    check_model(model, case, first=(case.iterations == 1))
    ctx.nontrivial(True)


# ---------------------------------------------- single-distribution trainers

def _single_data(d, complex_):
    lead = gen.draw_lead(d)
    D = d.int(2, 6)
    N = d.int(1, 20)
    rng = d.rng()
    y, _ = mm.cluster_data(rng, lead, 2, N, D, complex_, d.choice([0.05, 1.0]))
    pattern = d.choice(['none', 'zero-frames', 'all-zero', 'duplicates',
                        'rank-deficient'])
    y = mm.apply_degeneracy(d, rng, y, pattern)
    exp = d.int(-150, 150) if d.bool() else 0
    y = y * 10.0 ** exp
    sal = None
    sk = d.choice(['none', 'positive', 'zeros'])
    if sk != 'none':
        sal = rng.uniform(0.2, 2, size=(*lead, N))
        if sk == 'zeros' and N >= 2:
            sal[..., d.subset(N, 1, N - 1)] = 0
    return lead, D, N, y, sal, pattern, exp, sk


@subcheck(SUBCHECKS, 'single_trainers', quick=600, thorough=10000)
def single_trainers(d, ctx):
    import pb_bss.distribution as dist
    from pb_bss.distribution.complex_bingham import ComplexBinghamTrainer
    which = d.choice(['cacg', 'watson', 'vmf', 'gaussian', 'bingham', 'ccsg'])
    complex_ = which in ('cacg', 'watson', 'bingham', 'ccsg')
    lead, D, N, y, sal, pattern, exp, sk = _single_data(d, complex_)
    ctx.describe(trainer=which, lead=lead, D=D, N=N, data=pattern,
                 scale_exp=exp, saliency=sk)
    ctx.label(which, f'data={pattern}', f'saliency={sk}')
    kind = which
    allow = mm.EXPLICIT
    if which == 'cacg':
        norm = d.choice(['eigenvalue', 'trace', False])
        floor = d.choice([1e-10, 1e-6, 1e-3])
        m = ctx.lib(dist.ComplexAngularCentralGaussianTrainer().fit, y,
                    covariance_norm=norm, eigenvalue_floor=floor,
                    hermitize=d.bool(), iterations=d.int(1, 6), allow=allow)
        check_cacg(m, D, norm, floor, False, kind)
    elif which == 'watson':
        mc = d.choice([500, 100, 20])
        m = ctx.lib(dist.ComplexWatsonTrainer(max_concentration=mc).fit, y,
                    saliency=sal, allow=allow)
        check_watson(m, mc, False, kind)
    elif which == 'vmf':
        lo, hi = d.choice([(1e-10, 500), (1e-3, 100), (1.0, 20)])
        m = ctx.lib(dist.VonMisesFisherTrainer().fit, y, saliency=sal,
                    min_concentration=lo, max_concentration=hi, allow=allow)
        check_vmf(m, lo, hi, False, kind)
    elif which == 'gaussian':
        ct = d.choice(['full', 'diagonal', 'spherical'])
        m = ctx.lib(dist.GaussianTrainer().fit, y, saliency=sal,
                    covariance_type=ct, allow=allow)
        check_gaussian(m, ct, kind)
    elif which == 'bingham':
        mc = d.choice([np.inf, 500.0])
        m = ctx.lib(ComplexBinghamTrainer(max_concentration=mc).fit, y,
                    saliency=sal, allow=allow)
        check_bingham(m, mc, kind)
    else:
        m = ctx.lib(dist.ComplexCircularSymmetricGaussianTrainer().fit, y,
                    saliency=sal, allow=allow)
        cov = np.asarray(m.covariance)
        require(np.all(np.isfinite(cov)), 'ccsg-finite', '', kind=kind)
        scale = max(float(np.max(np.abs(cov))), 1e-300)
        require(np.max(np.abs(cov - np.swapaxes(cov.conj(), -1, -2)))
                <= 1e-9 * scale, 'ccsg-hermitian', '', kind=kind)
    ctx.nontrivial(pattern != 'none' or sk != 'none' or N < 2 * D)


@subcheck(SUBCHECKS, 'concentration_bound_history', quick=150, thorough=3000)
def concentration_bound_history(d, ctx):
    """Several trainers with different concentration bounds used one after
    the other in one process (fresh objects each): every fitted concentration
    obeys the bound of the trainer that produced it."""
    import pb_bss.distribution as dist
    D = d.int(2, 5)
    steps = d.int(2, 4)
    rng = d.rng()
    hist = []
    for i in range(steps):
        mc = d.choice([500, 100, 20, 5])
        family = d.choice(['watson', 'cwmm', 'vmf', 'vmfmm'])
        N = d.int(D + 2, 20)
        u = d.choice([1e-1, 1e-2, 1e-3, 1e-4])
        hist.append((family, mc, u))
        if family in ('watson', 'cwmm'):
            proto = gen.unit(gen.cnormal(rng, (D,)))
            y = proto * gen.cnormal(rng, (N, 1)) + u * gen.cnormal(rng, (N, D))
        else:
            proto = gen.unit(rng.normal(size=(D,)))
            y = proto * rng.uniform(0.5, 2, size=(N, 1)) + u * rng.normal(size=(N, D))
        if family == 'watson':
            m = ctx.lib(dist.ComplexWatsonTrainer(max_concentration=mc).fit, y)
            check_watson(m, mc, False, family)
        elif family == 'cwmm':
            init = rng.dirichlet(np.ones(2), size=N).T
            m = ctx.lib(dist.CWMMTrainer(max_concentration=mc).fit, y,
                        initialization=init, iterations=2)
            check_watson(m.complex_watson, mc, False, family)
        elif family == 'vmf':
            m = ctx.lib(dist.VonMisesFisherTrainer().fit, y,
                        max_concentration=mc)
            check_vmf(m, 1e-10, mc, False, family)
        else:
            init = rng.dirichlet(np.ones(2), size=N).T
            m = ctx.lib(dist.VMFMMTrainer().fit, y, initialization=init,
                        iterations=2, max_concentration=mc)
            check_vmf(m.vmf, 1e-10, mc, False, family)
    ctx.describe(D=D, history=hist)
    ctx.nontrivial(len({h[1] for h in hist}) >= 2)
    ctx.label(f'steps={steps}')
