"""C06 - leading (frequency/batch) axes are independent problems.

Differential oracle: the stacked call indexed at a slice equals the same call
on that slice alone.
"""
import numpy as np

from pbv import gen, mm
from pbv.core import Borderline, Violation, require, require_close, subcheck

SUBCHECKS = []
RULE = (
    'Stacks with 1..3 leading axes of sizes 1..5 and different content in '
    'every slice: fit and log_pdf of Gaussian (full/diagonal/spherical), '
    'complex Gaussian, vMF, complex Watson, cACG, complex Bingham; fit / '
    'predict of cACGMM, cWMM, cBMM, GMM (3 types), vMFMM with per-slice '
    'weights and every option; singleton-leading-axis initial affiliation '
    'versus its explicit repetition. Non-trivial: at least 2 slices in total. '
    'Distinct = distinct recorded choice sequence.'
)


def draw_lead(d, max_axes=3, max_size=5, max_total=12):
    n = d.int(1, max_axes)
    lead = []
    total = 1
    for _ in range(n):
        s = d.int(1, max(1, min(max_size, max_total // total)))
        lead.append(s)
        total *= s
    return tuple(lead)


def _cmp_fields(a, b, names, clause, idx, rtol=1e-9, atol=1e-12):
    for name in names:
        x = np.asarray(getattr(a, name))[idx]
        y = np.asarray(getattr(b, name))
        require(x.shape == y.shape, clause + '-shape',
                f'{name}: stacked slice {x.shape} vs alone {y.shape}')
        require_close(x, y, clause, rtol=rtol, atol=atol,
                      what=f'{name} idx={idx}')


@subcheck(SUBCHECKS, 'distributions', quick=900, thorough=14000)
def distributions(d, ctx):
    import pb_bss.distribution as dist
    from pb_bss.distribution.complex_bingham import (ComplexBingham,
                                                     ComplexBinghamTrainer)
    which = d.choice(['gaussian-full', 'gaussian-diagonal',
                      'gaussian-spherical', 'ccsg', 'vmf', 'watson', 'cacg',
                      'bingham'])
    lead = draw_lead(d, max_total=6 if which == 'bingham' else 12)
    D = d.int(2, 4 if which == 'bingham' else 6)
    N = d.int(2 * D + 1, 2 * D + 12)
    rng = d.rng()
    complex_ = which in ('ccsg', 'watson', 'cacg', 'bingham')
    spread = d.choice([0.5, 0.5, 1e-2, 1e-5])
    y, _ = mm.cluster_data(rng, lead, 2 if spread == 0.5 else 1, N, D, complex_, spread)
    if not complex_:
        y = y + rng.normal(size=(*lead, 1, D))
    sal = None
    if d.bool() and which != 'cacg':
        sal = rng.uniform(0.2, 2.0, size=(*lead, N))
    ctx.describe(which=which, lead=lead, D=D, N=N, saliency=sal is not None, spread=spread)
    ctx.label(which, f'naxes={len(lead)}', f'slices={min(int(np.prod(lead)), 6)}')

    def fit(data, s):
        if which.startswith('gaussian'):
            return dist.GaussianTrainer().fit(
                data, saliency=s, covariance_type=which.split('-')[1])
        if which == 'ccsg':
            return dist.ComplexCircularSymmetricGaussianTrainer().fit(data, saliency=s)
        if which == 'vmf':
            return dist.VonMisesFisherTrainer().fit(data, saliency=s)
        if which == 'watson':
            return dist.ComplexWatsonTrainer().fit(data, saliency=s)
        if which == 'cacg':
            return dist.ComplexAngularCentralGaussianTrainer().fit(
                data, iterations=iters, covariance_norm=norm,
                eigenvalue_floor=floor)
        return ComplexBinghamTrainer().fit(data, saliency=s)

    iters = d.int(1, 5)
    norm = d.choice(['eigenvalue', 'trace', False])
    floor = d.choice([1e-10, 1e-3, 3e-2, 0.2])
    stacked = ctx.lib(fit, y, sal, clause='stacked-fit-raises',
                      allow_if=(lambda e: isinstance(e, (AssertionError, ValueError))
                                if which == 'bingham' else False))
    fields = {
        'gaussian-full': ['mean', 'covariance'],
        'gaussian-diagonal': ['mean', 'covariance'],
        'gaussian-spherical': ['mean', 'covariance'],
        'ccsg': ['covariance'], 'vmf': ['mean', 'concentration'],
        'watson': ['concentration'], 'cacg': ['covariance'],
        'bingham': ['covariance'],
    }[which]
    ynew = y + 0.1 * (gen.cnormal(rng, y.shape) if complex_ else rng.normal(size=y.shape))
    if which in ('watson', 'bingham'):
        ynew = gen.unit(ynew)
    lp_stacked = ctx.lib(stacked.log_pdf, ynew, clause='stacked-log_pdf-raises')
    require(np.shape(lp_stacked) == (*lead, N), 'log_pdf-shape',
            f'{np.shape(lp_stacked)} != {(*lead, N)}')
    for idx in np.ndindex(*lead):
        alone = ctx.lib(fit, y[idx], None if sal is None else sal[idx],
                        allow_if=mm.explicit_refusal)
        _cmp_fields(stacked, alone, fields, f'{which}-fit-slice', idx,
                    rtol=1e-6 if which == 'bingham' else 1e-9,
                    atol=1e-6 if which == 'bingham' else 1e-12)  # same input bytes per slice: the solver is deterministic
        if which == 'watson':
            pa_ = np.einsum('d,e->de', stacked.mode[idx], stacked.mode[idx].conj())
            pb_ = np.einsum('d,e->de', alone.mode, alone.mode.conj())
            require_close(pa_, pb_, 'watson-fit-slice', atol=1e-9)
        lp_alone = ctx.lib(alone.log_pdf, ynew[idx])
        require_close(np.asarray(lp_stacked)[idx], lp_alone,
                      f'{which}-log_pdf-slice',
                      rtol=1e-6 if which == 'bingham' else 1e-9, atol=1e-9,
                      what=f'idx={idx}')
    ctx.nontrivial(int(np.prod(lead)) >= 2)


def _mixture(d, ctx, kind, **kw):
    lead = draw_lead(d, max_total=4 if kind == 'cbmm' else 8)
    case = mm.draw_case(
        d, [kind], degenerate=False, general_position=True,
        single_precision=False, allow_scale=False, allow_num_classes=False,
        allow_aligner=False, regular_share=False, positive_saliency_only=True,
        stable_only=True, force_lead=lead, **kw)
    wca = case.opts.get('weight_constant_axis', (-1,))
    if wca not in ((-1,), -1, [-1], -2):
        case.opts['weight_constant_axis'] = d.choice([(-1,), -1, [-1], -2])
    ctx.describe(**case.describe())
    ctx.label(kind, f'naxes={len(lead)}', f'slices={min(int(np.prod(lead)), 6)}',
              f'init={case.meta["init"]}')
    stacked = ctx.lib(mm.fit, case, allow_if=mm.explicit_refusal,
                      clause='stacked-fit-raises')
    if mm.ill_conditioned(stacked, case):
        raise Borderline('fit sits on a numerical guard')
    p_st = mm.params(stacked, case)
    post_st = ctx.lib(mm.predict, stacked, case)
    init_full = np.broadcast_to(case.init, case.aff_shape)
    for idx in np.ndindex(*lead):
        sub = case.copy(lead=(), y=case.y[idx], init=np.array(init_full[idx]))
        for key in ('saliency', 'source_activity_mask', 'fixed_covariance'):
            if case.opts.get(key) is not None:
                sub.opts[key] = case.opts[key][idx]
        alone = ctx.lib(mm.fit, sub, clause='slice-fit-raises')
        p_al = mm.params(alone, sub)
        sliced = {}
        for key, val in p_st.items():
            if key == 'weight' and val.ndim == 2 and len(lead) > 0 and \
                    val.shape == (case.K, 1):
                sliced[key] = val          # uniform weights, no leading axes
            else:
                sliced[key] = val[idx]
        mm.compare_params(sliced, p_al, 'stacked-fit-differs-from-slice',
                          rtol=1e-8, atol=1e-10, kind=kind, what=f'idx={idx}')
        post_al = ctx.lib(mm.predict, alone, sub)
        require_close(post_st[idx], post_al, 'stacked-predict-differs-from-slice',
                      atol=1e-8, what=f'idx={idx}', kind=kind)
    # singleton leading axes of the start behave like repetition (cACGMM)
    if kind == 'cacgmm' and case.init.shape != case.aff_shape:
        rep = case.copy(init=np.array(init_full))
        m2 = ctx.lib(mm.fit, rep)
        mm.compare_params(p_st, mm.params(m2, rep),
                          'singleton-start-differs-from-repetition',
                          rtol=1e-10, atol=1e-12, kind=kind)
        ctx.label('singleton-start')
    ctx.nontrivial(int(np.prod(lead)) >= 2)


def _make(kind, quick, thorough, **kw):
    @subcheck(SUBCHECKS, f'mixture_{kind}', quick=quick, thorough=thorough)
    def fn(d, ctx, _kind=kind, _kw=kw):
        _mixture(d, ctx, _kind, **_kw)
    return fn


_make('cacgmm', 300, 5000, max_iterations=6, max_K=4, max_D=5)
_make('cwmm', 250, 4000, max_iterations=6, max_K=4, max_D=5)
_make('cbmm', 30, 500, max_K=2, max_D=3, max_iterations=2)
_make('gmm', 300, 5000, max_iterations=6, max_K=4, max_D=5)
_make('vmfmm', 220, 3500, max_iterations=6, max_K=4, max_D=5)
