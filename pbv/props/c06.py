"""C06 - leading (frequency/batch) axes are independent problems.

Differential oracle: the stacked call indexed at a slice equals the same call
on that slice alone.
"""
import numpy as np

from pbv import gen, mm
from pbv.core import Borderline, Violation, close, require, require_close, subcheck

SUBCHECKS = []
RULE = (
    'Stacks with 1..3 leading axes of sizes 1..5 and different content in '
    'every slice: fit and log_pdf of Gaussian (full/diagonal/spherical), '
    'complex Gaussian, vMF, complex Watson, cACG, complex Bingham; fit / '
    'predict of cACGMM, cWMM, cBMM, GMM (3 types), vMFMM with per-slice '
    'weights and every option; singleton-leading-axis initial affiliation '
    'versus its explicit repetition; distribution objects constructed from '
    'stacked parameters of very different scale per slice (repeated Bingham '
    'eigenvalues next to strongly concentrated slices, covariances 1e-6..1e6) '
    'versus the single models. Non-trivial: at least 2 slices in total. '
    'Distinct = distinct recorded choice sequence.'
)


def draw_lead(d, max_axes=3, max_size=5, max_total=12):
    n = d.int(1, max_axes)
    lead = []
    total = 1
    for _ in range(n):
        s = d.int(1, max(1, min(max_size, max_total // total)))
        lead.append(s)
        total *= s
    return tuple(lead)


def _cmp_fields(a, b, names, clause, idx, rtol=1e-9, atol=1e-12):
    for name in names:
        x = np.asarray(getattr(a, name))[idx]
        y = np.asarray(getattr(b, name))
        require(x.shape == y.shape, clause + '-shape',
                f'{name}: stacked slice {x.shape} vs alone {y.shape}')
        require_close(x, y, clause, rtol=rtol, atol=atol,
                      what=f'{name} idx={idx}')


@subcheck(SUBCHECKS, 'distributions', quick=900, thorough=14000)
def distributions(d, ctx):
    import pb_bss.distribution as dist
    from pb_bss.distribution.complex_bingham import (ComplexBingham,
                                                     ComplexBinghamTrainer)
    which = d.choice(['gaussian-full', 'gaussian-diagonal',
                      'gaussian-spherical', 'ccsg', 'vmf', 'watson', 'cacg',
                      'bingham'])
    lead = draw_lead(d, max_total=6 if which == 'bingham' else 12)
    D = d.int(2, 4 if which == 'bingham' else 6)
    N = d.int(2 * D + 1, 2 * D + 12)
    rng = d.rng()
    complex_ = which in ('ccsg', 'watson', 'cacg', 'bingham')
    spread = d.choice([0.5, 0.5, 1e-2, 1e-5])
    y, _ = mm.cluster_data(rng, lead, 2 if spread == 0.5 else 1, N, D, complex_, spread)
    if not complex_:
        y = y + rng.normal(size=(*lead, 1, D))
    sal = None
    if d.bool() and which != 'cacg':
        sal = rng.uniform(0.2, 2.0, size=(*lead, N))
        # other dtypes of the weights: selection masks (boolean, a different
        # number of selected frames per slice), counts, single precision
        sk = ['float64', 'float64', 'bool', 'int', 'float32'][int(d.aux(61).integers(0, 5))]
        if sk == 'bool':
            sal = sal > np.quantile(sal, d.aux(62).uniform(0.1, 0.5, size=(*lead, 1)),
                                    axis=-1).reshape(-1)[:1].item() if False else \
                (sal > 0.2 + 1.6 * d.aux(62).uniform(0.1, 0.5, size=(*lead, 1)))
            sal[..., :D + 1] = True
        elif sk == 'int':
            sal = np.ceil(sal * 2).astype(np.int64)
        elif sk == 'float32':
            sal = sal.astype(np.float32)
    ctx.describe(which=which, lead=lead, D=D, N=N, saliency=sal is not None, spread=spread)
    ctx.label(which, f'naxes={len(lead)}', f'slices={min(int(np.prod(lead)), 6)}')

    def fit(data, s):
        if which.startswith('gaussian'):
            return dist.GaussianTrainer().fit(
                data, saliency=s, covariance_type=which.split('-')[1])
        if which == 'ccsg':
            return dist.ComplexCircularSymmetricGaussianTrainer().fit(data, saliency=s)
        if which == 'vmf':
            return dist.VonMisesFisherTrainer().fit(data, saliency=s)
        if which == 'watson':
            return dist.ComplexWatsonTrainer().fit(data, saliency=s)
        if which == 'cacg':
            return dist.ComplexAngularCentralGaussianTrainer().fit(
                data, iterations=iters, covariance_norm=norm,
                eigenvalue_floor=floor)
        return ComplexBinghamTrainer().fit(data, saliency=s)

    iters = d.int(1, 5)
    norm = d.choice(['eigenvalue', 'trace', False])
    floor = d.choice([1e-10, 1e-3, 3e-2, 0.2])
    stacked = ctx.lib(fit, y, sal, clause='stacked-fit-raises',
                      allow_if=(lambda e: isinstance(e, (AssertionError, ValueError))
                                if which == 'bingham' else False))
    fields = {
        'gaussian-full': ['mean', 'covariance'],
        'gaussian-diagonal': ['mean', 'covariance'],
        'gaussian-spherical': ['mean', 'covariance'],
        'ccsg': ['covariance'], 'vmf': ['mean', 'concentration'],
        'watson': ['concentration'], 'cacg': ['covariance'],
        'bingham': ['covariance'],
    }[which]
    ynew = y + 0.1 * (gen.cnormal(rng, y.shape) if complex_ else rng.normal(size=y.shape))
    if which in ('watson', 'bingham'):
        ynew = gen.unit(ynew)
    lp_stacked = ctx.lib(stacked.log_pdf, ynew, clause='stacked-log_pdf-raises')
    require(np.shape(lp_stacked) == (*lead, N), 'log_pdf-shape',
            f'{np.shape(lp_stacked)} != {(*lead, N)}')
    for idx in np.ndindex(*lead):
        alone = ctx.lib(fit, y[idx], None if sal is None else sal[idx],
                        allow_if=mm.explicit_refusal)
        _cmp_fields(stacked, alone, fields, f'{which}-fit-slice', idx,
                    rtol=1e-6 if which == 'bingham' else 1e-9,
                    atol=1e-6 if which == 'bingham' else 1e-12)  # same input bytes per slice: the solver is deterministic
        if which == 'watson':
            pa_ = np.einsum('d,e->de', stacked.mode[idx], stacked.mode[idx].conj())
            pb_ = np.einsum('d,e->de', alone.mode, alone.mode.conj())
            require_close(pa_, pb_, 'watson-fit-slice', atol=1e-9)
        lp_alone = ctx.lib(alone.log_pdf, ynew[idx])
        require_close(np.asarray(lp_stacked)[idx], lp_alone,
                      f'{which}-log_pdf-slice',
                      rtol=1e-6 if which == 'bingham' else 1e-9, atol=1e-9,
                      what=f'idx={idx}')
    ctx.nontrivial(int(np.prod(lead)) >= 2)


@subcheck(SUBCHECKS, 'constructed_models', quick=500, thorough=8000)
def constructed_models(d, ctx):
    """distribution objects built directly from a stack of parameters (no
    trainer, no iterative solver): log_pdf / log_norm of the stack == those of
    the individual models.  The slices differ in scale on purpose: repeated or
    nearly repeated Bingham eigenvalues next to strongly concentrated slices,
    cACG / Gaussian covariances of very different magnitude, concentrations
    from 1e-6 to 500 (Watson and vMF: to 1e4, for Watson beyond the overflow of 1F1) side by side."""
    import pb_bss.distribution as dist
    from pb_bss.distribution.complex_bingham import ComplexBingham
    which = d.choice(['bingham', 'bingham', 'cacg', 'watson', 'vmf', 'ccsg', 'gaussian'])
    lead = draw_lead(d, max_total=8)
    D = d.int(2, 5)
    N = d.int(1, 6)
    rng = d.rng()
    n = int(np.prod(lead))
    ctx.describe(which=which, lead=lead, D=D, N=N)
    ctx.label(which, f'nlead={len(lead)}')

    def per_slice(shape_tail, fn):
        return np.stack([fn(i) for i in range(n)]).reshape(*lead, *shape_tail)

    if which == 'bingham':
        def eigs(i):
            mag = 10.0 ** rng.uniform(-1, 5)
            lam = -np.sort(rng.uniform(0, 1, size=D))[::-1] * mag
            kind = rng.integers(0, 4)
            if kind == 0 and D >= 2:
                lam[1] = lam[0]                       # exact duplicate
            elif kind == 1 and D >= 3:
                lam[2] = lam[1] * (1 + 1e-12)         # duplicate up to rounding
            lam = lam - lam.max()
            return rng.permutation(lam)
        lam = per_slice((D,), eigs)
        V = per_slice((D, D), lambda i: gen.haar_unitary(rng, D))
        y = gen.unit(gen.cnormal(rng, (*lead, N, D)))
        make = lambda idx: ComplexBingham(V[idx], lam[idx])          # noqa
        full = ComplexBingham(V, lam)
        fields = {'log_pdf': lambda m, yy: m.log_pdf(yy), 'log_norm': lambda m, yy: m.log_norm()}
    elif which == 'cacg':
        cov = per_slice((D, D), lambda i: gen.hpd(rng, D, 10 ** rng.uniform(0, 4), 1.0, ())
                        * 10.0 ** rng.uniform(-6, 6))
        y = gen.cnormal(rng, (*lead, N, D))
        norm = d.choice(['eigenvalue', 'trace', False])
        floor = d.choice([1e-10, 1e-3, 0.1])
        build = lambda c: dist.ComplexAngularCentralGaussian.from_covariance(   # noqa
            c, covariance_norm=norm, eigenvalue_floor=floor)
        make = lambda idx: build(cov[idx])       # noqa
        full = build(cov)
        fields = {'log_pdf': lambda m, yy: m.log_pdf(yy),
                  'eigenvalues': lambda m, yy: m.covariance_eigenvalues,
                  'log_determinant': lambda m, yy: m.log_determinant}
    elif which == 'watson':
        mode = gen.unit(gen.cnormal(rng, (*lead, D)))
        conc = per_slice((), lambda i: 10.0 ** rng.uniform(-6, np.log10(500)))
        if d.epoch >= 4 and d.aux(61).integers(0, 2) == 0:
            # concentrations beyond the overflow of 1F1 (~709, supported since
            # dc3be95) next to small ones in the same stack (C06_r13)
            arng = d.aux(62)
            big = 10.0 ** arng.uniform(2.5, 4, size=conc.shape)
            conc = np.where(arng.integers(0, 2, size=conc.shape) == 0, big, conc)
            ctx.label('watson-beyond-1f1-overflow' if (conc > 709).any() and (conc < 100).any()
                      else 'watson-wide')
        y = gen.unit(gen.cnormal(rng, (*lead, N, D)))
        make = lambda idx: dist.ComplexWatson(mode=mode[idx], concentration=np.asarray(conc[idx]))  # noqa
        full = dist.ComplexWatson(mode=mode, concentration=conc)
        fields = {'log_pdf': lambda m, yy: m.log_pdf(yy), 'log_norm': lambda m, yy: m.log_norm()}
    elif which == 'vmf':
        mean = gen.unit(rng.normal(size=(*lead, D)))
        conc = per_slice((), lambda i: 10.0 ** rng.uniform(-6, np.log10(500)))
        if d.epoch >= 4 and d.aux(63).integers(0, 2) == 0:
            # as for Watson: very concentrated slices (316..1e4) next to small ones
            arng = d.aux(64)
            big = 10.0 ** arng.uniform(2.5, 4, size=conc.shape)
            conc = np.where(arng.integers(0, 2, size=conc.shape) == 0, big, conc)
            ctx.label('vmf-wide')
        y = rng.normal(size=(*lead, N, D))
        make = lambda idx: dist.VonMisesFisher(mean=mean[idx], concentration=np.asarray(conc[idx]))  # noqa
        full = dist.VonMisesFisher(mean=mean, concentration=conc)
        fields = {'log_pdf': lambda m, yy: m.log_pdf(yy), 'log_norm': lambda m, yy: m.log_norm()}
    elif which == 'ccsg':
        cov = per_slice((D, D), lambda i: gen.hpd(rng, D, 10 ** rng.uniform(0, 4), 1.0, ())
                        * 10.0 ** rng.uniform(-6, 6))
        y = gen.cnormal(rng, (*lead, N, D))
        make = lambda idx: dist.ComplexCircularSymmetricGaussian(covariance=cov[idx])   # noqa
        full = dist.ComplexCircularSymmetricGaussian(covariance=cov)
        fields = {'log_pdf': lambda m, yy: m.log_pdf(yy)}
    else:
        ct = d.choice(['full', 'diagonal', 'spherical'])
        mean = rng.normal(size=(*lead, D)) * 3
        if ct == 'full':
            cov = per_slice((D, D), lambda i: gen.spd(rng, D, 10 ** rng.uniform(0, 4), 1.0, ())
                            * 10.0 ** rng.uniform(-6, 6))
            cls = dist.Gaussian
        elif ct == 'diagonal':
            cov = per_slice((D,), lambda i: 10.0 ** rng.uniform(-6, 6, size=D))
            cls = dist.DiagonalGaussian
        else:
            cov = per_slice((), lambda i: 10.0 ** rng.uniform(-6, 6))
            cls = dist.SphericalGaussian
        y = rng.normal(size=(*lead, N, D)) * 3
        make = lambda idx: cls(mean=mean[idx], covariance=np.asarray(cov[idx]))   # noqa
        full = cls(mean=mean, covariance=cov)
        fields = {'log_pdf': lambda m, yy: m.log_pdf(yy)}
        ctx.label(ct)
    for name, fn in fields.items():
        got = np.asarray(ctx.lib(fn, full, y))
        for idx in np.ndindex(*lead):
            one = np.asarray(ctx.lib(fn, make(idx), y[idx]))
            a = got[idx]
            if not (np.all(np.isfinite(a)) and np.all(np.isfinite(one))):
                raise Borderline('non-finite value (C07 / C01 judge those)')
            ok, msg = close(a, one, rtol=1e-9, atol=1e-9)
            if not ok:
                raise Violation('stacked-model-differs-from-single-model',
                                f'{which}.{name} index {idx}: {msg}', which=which, field=name)
    ctx.nontrivial(n >= 2)


def _mixture(d, ctx, kind, **kw):
    lead = draw_lead(d, max_total=4 if kind == 'cbmm' else 8)
    case = mm.draw_case(
        d, [kind], degenerate=False, general_position=True,
        single_precision=False, allow_scale=False, allow_num_classes=False,
        allow_aligner=False, regular_share=False, positive_saliency_only=True,
        stable_only=True, force_lead=lead, **kw)
    wca = case.opts.get('weight_constant_axis', (-1,))
    if wca not in ((-1,), -1, [-1], -2):
        case.opts['weight_constant_axis'] = d.choice([(-1,), -1, [-1], -2])
    ctx.describe(**case.describe())
    ctx.label(kind, f'naxes={len(lead)}', f'slices={min(int(np.prod(lead)), 6)}',
              f'init={case.meta["init"]}')
    stacked = ctx.lib(mm.fit, case, allow_if=mm.explicit_refusal,
                      clause='stacked-fit-raises')
    if mm.ill_conditioned(stacked, case):
        raise Borderline('fit sits on a numerical guard')
    p_st = mm.params(stacked, case)
    post_st = ctx.lib(mm.predict, stacked, case)
    init_full = np.broadcast_to(case.init, case.aff_shape)
    for idx in np.ndindex(*lead):
        sub = case.copy(lead=(), y=case.y[idx], init=np.array(init_full[idx]))
        for key in ('saliency', 'source_activity_mask', 'fixed_covariance'):
            if case.opts.get(key) is not None:
                sub.opts[key] = case.opts[key][idx]
        alone = ctx.lib(mm.fit, sub, clause='slice-fit-raises')
        p_al = mm.params(alone, sub)
        sliced = {}
        for key, val in p_st.items():
            if key == 'weight' and val.ndim == 2 and len(lead) > 0 and \
                    val.shape == (case.K, 1):
                sliced[key] = val          # uniform weights, no leading axes
            else:
                sliced[key] = val[idx]
        mm.compare_params(sliced, p_al, 'stacked-fit-differs-from-slice',
                          rtol=1e-8, atol=1e-10, kind=kind, what=f'idx={idx}')
        post_al = ctx.lib(mm.predict, alone, sub)
        require_close(post_st[idx], post_al, 'stacked-predict-differs-from-slice',
                      atol=1e-8, what=f'idx={idx}', kind=kind)
    # singleton leading axes of the start behave like repetition (cACGMM)
    if kind == 'cacgmm' and case.init.shape != case.aff_shape:
        rep = case.copy(init=np.array(init_full))
        m2 = ctx.lib(mm.fit, rep)
        mm.compare_params(p_st, mm.params(m2, rep),
                          'singleton-start-differs-from-repetition',
                          rtol=1e-10, atol=1e-12, kind=kind)
        ctx.label('singleton-start')
    ctx.nontrivial(int(np.prod(lead)) >= 2)


def _make(kind, quick, thorough, **kw):
    @subcheck(SUBCHECKS, f'mixture_{kind}', quick=quick, thorough=thorough)
    def fn(d, ctx, _kind=kind, _kw=kw):
        _mixture(d, ctx, _kind, **_kw)
    return fn


_make('cacgmm', 300, 5000, max_iterations=6, max_K=4, max_D=5)
_make('cwmm', 250, 4000, max_iterations=6, max_K=4, max_D=5)
_make('cbmm', 30, 500, max_K=2, max_D=3, max_iterations=2)
_make('gmm', 300, 5000, max_iterations=6, max_K=4, max_D=5)
_make('vmfmm', 220, 3500, max_iterations=6, max_K=4, max_D=5)
