"""CLI of the verification machinery:  ./check <ID> [--tier quick|thorough]
[--replay FILE] [--only SUBCHECK] [--jobs N] [--scale X]

exit 0  property held on everything explored (known findings printed)
exit 1  violation(s): one line  VIOLATION property=<id> replay=<path>  each
exit 2  harness error / inconclusive (never reported as a violation)
"""
import argparse
import collections
import hashlib
import importlib
import json
import math
import multiprocessing
import os
import re
import sys
import time
import traceback
import warnings

ROOT = os.path.dirname(os.path.dirname(os.path.abspath(__file__)))


def _setup_env():
    """Must run before numpy / pb_bss are imported."""
    for var in ('OMP_NUM_THREADS', 'OPENBLAS_NUM_THREADS', 'MKL_NUM_THREADS',
                'NUMEXPR_NUM_THREADS'):
        os.environ[var] = '1'
    os.environ['PB_BSS_VERIF'] = '1'
    os.environ['PYTHONDONTWRITEBYTECODE'] = '1'
    sys.dont_write_bytecode = True
    repo = os.environ.get('VERIF_REPO', '/repo')
    deps = os.path.join(ROOT, '.deps')
    for p in (deps, ROOT, repo):
        if p in sys.path:
            sys.path.remove(p)
    # the library under test first, then the harness, then fallback deps
    sys.path.insert(0, repo)
    sys.path.insert(1, ROOT)
    if os.path.isdir(deps):
        sys.path.append(deps)
    warnings.filterwarnings('ignore')


_setup_env()

import numpy as np  # noqa: E402

from pbv.core import (  # noqa: E402
    GENERATOR_EPOCH, Borderline, Ctx, HypothesisDraw, Rejected, ReplayDraw, Violation,
    digest_choices, jsonable,
)

PROPS = ['C%02d' % i for i in range(1, 21)]


def load_prop(pid):
    return importlib.import_module('pbv.props.' + pid.lower())


def derive_seed(verif_seed, pid, sub, shard):
    h = hashlib.sha256(f'{verif_seed}:{pid}:{sub}:{shard}'.encode()).hexdigest()
    return int(h[:8], 16)


def slug(s, n=70):
    s = re.sub(r'[^A-Za-z0-9_.=+-]+', '_', s).strip('_')
    return s[:n]


def signature(sub, v):
    attrs = ','.join(f'{k}={v.attrs[k]}' for k in sorted(v.attrs))
    return f'{sub}/{v.clause}' + (f'/{attrs}' if attrs else '')


# --------------------------------------------------------------------------
# executing one case
# --------------------------------------------------------------------------

def execute(sc, d):
    """Run sub-check ``sc`` with draw object ``d``.
    Returns (outcome, ctx, info)."""
    ctx = Ctx(d)
    try:
        with np.errstate(all='ignore'):
            sc.fn(d, ctx)
        return 'ok', ctx, None
    except Violation as v:
        return 'violation', ctx, v
    except Rejected as r:
        return 'rejected', ctx, r
    except Borderline as b:
        return 'borderline', ctx, b
    except Exception as e:  # noqa
        import hypothesis.errors
        if isinstance(e, hypothesis.errors.HypothesisException):
            raise
        return 'harness_error', ctx, traceback.format_exc()


class TaskResult:
    def __init__(self):
        self.evaluations = 0
        self.nontrivial = set()
        self.labels = collections.Counter()
        self.outcomes = collections.Counter()
        self.samples = []
        self.violations = {}      # sig -> dict
        self.harness_errors = []
        self.exhaustive = {}      # name -> size
        self.wall = 0.0
        self.first_rejected = None   # example of an explicit refusal

    def account(self, sc, outcome, ctx, info, choices, want_sample):
        self.evaluations += 1
        self.outcomes[outcome] += 1
        for lab in ctx.labels:
            self.labels[lab] += 1
        if outcome == 'rejected':
            self.labels['rejected:' + re.sub(r'[0-9]+(\.[0-9]+)?(e[+-]?[0-9]+)?', '#', info.why)[:60]] += 1
            if self.first_rejected is None:
                self.first_rejected = {'choices': choices, 'why': info.why,
                                       'desc': dict(ctx.desc)}
        if outcome == 'borderline':
            self.labels['borderline'] += 1
        if ctx._nontrivial and outcome in ('ok', 'violation'):
            self.nontrivial.add(digest_choices(choices))
        if want_sample and outcome == 'ok' and ctx.desc and len(self.samples) < 2:
            if ctx._nontrivial or not self.samples:
                self.samples.append({'subcheck': sc.name, **ctx.desc})
        if outcome == 'violation':
            sig = signature(sc.name, info)
            slot = self.violations.get(sig)
            if slot is None:
                self.violations[sig] = {
                    'sig': sig, 'sub': sc.name, 'clause': info.clause,
                    'detail': info.detail, 'attrs': jsonable(info.attrs),
                    'choices': choices, 'count': 1, 'desc': dict(ctx.desc),
                }
            else:
                slot['count'] += 1
                # keep the case with the shortest serialisation
                if len(json.dumps(choices)) < len(json.dumps(slot['choices'])):
                    slot.update(choices=choices, detail=info.detail,
                                desc=dict(ctx.desc))
        if outcome == 'harness_error' and len(self.harness_errors) < 3:
            self.harness_errors.append({'sub': sc.name, 'trace': info,
                                        'choices': choices})


_FUZZ_OK = None


def fuzz_available():
    global _FUZZ_OK
    if _FUZZ_OK is None:
        try:
            import atheris  # noqa: F401
            _FUZZ_OK = True
        except Exception:  # noqa
            _FUZZ_OK = False
    return _FUZZ_OK


def run_fuzz_part(pid, sc, shard, seed_value, res):
    """coverage-guided part: the sub-check as an atheris / libFuzzer target in
    a process of its own (pbv.fuzz); its statistics and a possible violation are
    merged into the result of this task"""
    import shutil
    import subprocess
    import tempfile
    os.makedirs(os.path.join(ROOT, '.work'), exist_ok=True)
    out = tempfile.mkdtemp(prefix=f'pbv_fuzz_{pid}_', dir=os.path.join(ROOT, '.work'))
    try:
        repo = os.environ.get('VERIF_REPO', '/repo')
        env = dict(os.environ, PYTHONPATH=os.pathsep.join(
            [repo, ROOT, os.path.join(ROOT, '.deps')]))
        cmd = [sys.executable, '-m', 'pbv.fuzz', pid, sc.name, '--runs', str(sc.fuzz),
               '--seed', str(seed_value % (2 ** 31 - 1) + 1), '--out', out]
        try:
            r = subprocess.run(cmd, cwd=ROOT, env=env, stdout=subprocess.DEVNULL,
                               stderr=subprocess.DEVNULL, timeout=1500)
            rc = r.returncode
        except subprocess.TimeoutExpired:
            rc = 'timeout'
        stats_file = os.path.join(out, 'stats.json')
        if not os.path.exists(stats_file):
            if rc != 'timeout':
                res.harness_errors.append({'sub': sc.name, 'choices': None,
                                           'trace': f'fuzz part: no statistics (exit {rc})'})
            return
        st_ = json.load(open(stats_file))
        res.evaluations += st_['executions']
        for k_, v_ in st_['outcomes'].items():
            res.outcomes[k_ if k_ != 'known' else 'violation'] += v_
        res.nontrivial |= {bytes.fromhex(h) for h in st_['nontrivial']}
        res.labels['fuzz-executions'] += st_['executions']
        if st_.get('harness_errors'):
            res.harness_errors.append({'sub': sc.name, 'choices': None,
                                       'trace': 'fuzz part: ' + st_['harness_errors'][0]})
        v_ = st_.get('violation')
        if v_:
            # re-execute through the ordinary path so that the violation is
            # accounted (and later shrunk / replayed) like any other
            d = ReplayDraw(v_['choices'])
            outcome, ctx, info = execute(sc, d)
            res.account(sc, outcome, ctx, info, d.choices, False)
            if outcome != 'violation':
                res.harness_errors.append({
                    'sub': sc.name, 'choices': v_['choices'],
                    'trace': 'fuzz part: violation ' + v_['signature'] +
                             ' did not reproduce from its choice list'})
    finally:
        shutil.rmtree(out, ignore_errors=True)


def run_task(task):
    """Worker entry: one (sub-check, shard)."""
    pid, sub_name, shard, n_shards, n_examples, seed_value, tier = task
    t0 = time.time()
    res = TaskResult()
    try:
        mod = load_prop(pid)
        sc = [s for s in mod.SUBCHECKS if s.name == sub_name][0]
        # exhaustive part (complete enumeration of a finite sub-domain)
        if sc.exhaustive is not None:
            total = 0
            for i, choices in enumerate(sc.exhaustive(tier)):
                total += 1
                if i % n_shards != shard:
                    continue
                d = ReplayDraw(choices)
                outcome, ctx, info = execute(sc, d)
                res.account(sc, outcome, ctx, info, d.choices, i < 50)
            res.exhaustive[sc.name] = total
        if n_examples > 0 and getattr(sc, 'machine', None) is not None:
            st_ = sc.machine(seed_value, n_examples, tier)
            res.evaluations += st_['evaluations']
            res.outcomes['ok'] += st_['evaluations']
            res.nontrivial |= set(st_['nontrivial'])
            for k_, v_ in st_['labels'].items():
                res.labels[k_] += v_
            res.labels['history-steps'] += st_['steps']
            res.samples.extend(st_['samples'][:2])
            if st_['violation'] is not None:
                v_ = st_['violation']
                res.outcomes['violation'] += 1
                attrs = ','.join(f'{k}={v_["attrs"][k]}' for k in sorted(v_['attrs']))
                sig = f'{sc.name}/{v_["clause"]}' + (f'/{attrs}' if attrs else '')
                res.violations[sig] = {
                    'sig': sig, 'sub': sc.name, 'clause': v_['clause'],
                    'detail': v_['detail'], 'attrs': jsonable(v_['attrs']),
                    'choices': [], 'count': 1, 'desc': {},
                    'steps': json.loads(json.dumps(v_['steps'], default=str)),
                    'trainer_kwargs': v_['trainer_kwargs'],
                }
        if tier == 'thorough' and getattr(sc, 'fuzz', 0) and fuzz_available():
            run_fuzz_part(pid, sc, shard, seed_value, res)
        if n_examples > 0 and getattr(sc, 'machine', None) is not None:
            pass
        elif n_examples > 0:
            import hypothesis
            from hypothesis import HealthCheck, Phase, given, settings
            from hypothesis import strategies as st

            @hypothesis.seed(seed_value)
            @settings(max_examples=n_examples, database=None, deadline=None,
                      report_multiple_bugs=False, derandomize=False,
                      phases=[Phase.generate],
                      suppress_health_check=list(HealthCheck))
            @given(st.data())
            def test(data):
                d = HypothesisDraw(data)
                outcome, ctx, info = execute(sc, d)
                res.account(sc, outcome, ctx, info, d.choices, True)

            test()
    except Exception:  # noqa
        res.harness_errors.append({'sub': sub_name,
                                   'trace': traceback.format_exc(),
                                   'choices': None})
    res.wall = time.time() - t0
    return (sub_name, shard, res)


# --------------------------------------------------------------------------
# shrinking (greedy, bounded)
# --------------------------------------------------------------------------

def reproduces(sc, choices, sig):
    d = ReplayDraw(choices)
    outcome, ctx, info = execute(sc, d)
    if outcome == 'violation' and signature(sc.name, info) == sig:
        return True, d.choices, ctx, info
    return False, d.choices, ctx, info


def shrink(sc, choices, sig, max_runs, max_seconds):
    t0 = time.time()
    runs = 0
    ok, best, ctx, info = reproduces(sc, choices, sig)
    if not ok:
        return choices, None, None, 0
    best_ctx, best_info = ctx, info

    def attempt(cand):
        nonlocal best, best_ctx, best_info, runs
        runs += 1
        ok, norm, ctx, info = reproduces(sc, cand, sig)
        if ok and len(json.dumps(norm)) <= len(json.dumps(best)) and norm != best:
            best, best_ctx, best_info = norm, ctx, info
            return True
        return False

    improved = True
    while improved and runs < max_runs and time.time() - t0 < max_seconds:
        improved = False
        i = 0
        while i < len(best) and runs < max_runs and \
                time.time() - t0 < max_seconds:
            kind, val, lo = best[i]
            cands = []
            if kind in ('i',):
                if val != lo:
                    cands = [lo, lo + (val - lo) // 2, val - 1]
            elif kind == 's':
                if val > 3:
                    cands = [0, 1, 2, 3]
            elif kind == 'f':
                for c in (lo, 0.0, 1.0, float(round(val)), float(round(val, 1))):
                    if c != val and c >= lo:
                        cands.append(c)
            elif kind == 'a':
                if any(val):
                    cands = [[0] * len(val)]
                    nz = [k for k, x in enumerate(val) if x]
                    for k in nz[:6]:
                        c = list(val)
                        c[k] = 0
                        cands.append(c)
            seen = []
            for c in cands:
                if c in seen:
                    continue
                seen.append(c)
                cand = [list(x) for x in best]
                cand[i][1] = c
                if attempt(cand):
                    improved = True
                    break
            i += 1
    return best, best_ctx, best_info, runs


# --------------------------------------------------------------------------
# known findings
# --------------------------------------------------------------------------

def load_known(pid):
    path = os.path.join(ROOT, 'KNOWN_FINDINGS.txt')
    known = {}
    if not os.path.exists(path):
        return known
    for line in open(path):
        line = line.strip()
        m = re.match(r'known:\s+property=(\S+)\s+sig=(\S+)\s+(.*)', line)
        if m and m.group(1) == pid:
            known[m.group(2)] = m.group(3)
    return known


# --------------------------------------------------------------------------
# replay files
# --------------------------------------------------------------------------

def write_replay(pid, sc, sig, choices, ctx, info, extra, directory='replay'):
    d = os.path.join(ROOT, directory, pid)
    os.makedirs(d, exist_ok=True)
    base = os.path.join(d, slug(sig))
    doc = {
        'property': pid, 'subcheck': sc.name, 'signature': sig,
        'clause': info.clause if info is not None else None,
        'detail': info.detail if info is not None else None,
        'case': ctx.desc if ctx is not None else None,
        'choices': choices,
        'epoch': GENERATOR_EPOCH,
        'how_to_replay': f'./check {pid} --replay {os.path.relpath(base + ".json", ROOT)}',
    }
    doc.update(extra or {})
    if ctx is not None and ctx.arrays:
        try:
            np.savez_compressed(base + '.npz', **ctx.arrays)
            doc['arrays'] = os.path.basename(base + '.npz')
        except Exception:  # noqa
            pass
    with open(base + '.json', 'w') as f:
        json.dump(doc, f, indent=1, default=str)
    return base + '.json'


def do_replay(pid, path):
    doc = json.load(open(path))
    mod = load_prop(doc.get('property', pid))
    sc = [s for s in mod.SUBCHECKS if s.name == doc['subcheck']][0]
    if 'steps' in doc:
        print(f'replay {path}: subcheck={sc.name} history of {len(doc["steps"])} steps')
        for st_ in doc['steps']:
            print('  step:', json.dumps(st_, default=str))
        try:
            with np.errstate(all='ignore'):
                sc.replay_steps(doc['steps'], doc.get('trainer_kwargs', {}))
        except Violation as v:
            print(f'violated clause: {v.clause}\n  {v.detail}')
            print(f'VIOLATION property={pid} replay={path}')
            return 1
        print('no violation reproduced on this tree')
        return 0
    d = ReplayDraw(doc['choices'], epoch=doc.get('epoch', 1))
    outcome, ctx, info = execute(sc, d)
    print(f'replay {path}: subcheck={sc.name} outcome={outcome}')
    if ctx.desc:
        print('case:', json.dumps(ctx.desc, default=str))
    if outcome == 'violation':
        print(f'violated clause: {info.clause}\n  {info.detail}')
        print(f'VIOLATION property={pid} replay={path}')
        return 1
    if outcome == 'harness_error':
        print(info)
        return 2
    if doc.get('expect_outcome') == 'rejected' and outcome == 'rejected':
        # example case of a refusal-rate violation
        print(f'refused: {info.why}\n  {doc.get("detail", "")}')
        print(f'VIOLATION property={pid} replay={path}')
        return 1
    print('no violation reproduced on this tree')
    return 0


# --------------------------------------------------------------------------
# main
# --------------------------------------------------------------------------

def plan_tasks(pid, mod, tier, verif_seed, jobs, scale, only):
    tasks = []
    for sc in mod.SUBCHECKS:
        if only and sc.name not in only:
            continue
        budget = sc.quick if tier == 'quick' else sc.thorough
        budget = int(round(budget * scale))
        shards = sc.shards_quick if tier == 'quick' else sc.shards_thorough
        if shards is None:
            per = 150 if tier == 'quick' else 1500
            shards = max(1, min(jobs, budget // per))
        if budget <= 0:
            shards = max(1, shards if sc.exhaustive else 1)
        for sh in range(shards):
            n = budget // shards + (1 if sh < budget % shards else 0)
            if n <= 0 and sc.exhaustive is None:
                continue
            tasks.append((pid, sc.name, sh, shards, n,
                          derive_seed(verif_seed, pid, sc.name, sh), tier))
    return tasks


def main(argv=None):
    ap = argparse.ArgumentParser()
    ap.add_argument('pid')
    ap.add_argument('--tier', choices=['quick', 'thorough'], default=None)
    ap.add_argument('--replay', default=None)
    ap.add_argument('--only', action='append', default=None)
    ap.add_argument('--jobs', type=int, default=None)
    ap.add_argument('--scale', type=float, default=1.0)
    ap.add_argument('--timeout', type=float, default=None,
                    help='safety timeout in seconds (exit 2, never a violation)')
    ap.add_argument('--no-regress', action='store_true')
    ap.add_argument('--save-regress', action='store_true',
                    help='store shrunk failures under regress/ (maintenance)')
    args = ap.parse_args(argv)
    pid = args.pid.upper()
    if pid not in PROPS:
        print(f'unknown property {pid}', file=sys.stderr)
        return 2
    if args.replay:
        path = args.replay
        if not os.path.isabs(path):
            path = os.path.join(ROOT, path)
        return do_replay(pid, path)

    tier = args.tier or os.environ.get('VERIF_TIER') or 'quick'
    if tier not in ('quick', 'thorough'):
        tier = 'quick'
    try:
        verif_seed = int(os.environ.get('VERIF_SEED', '1'))
    except ValueError:
        verif_seed = 1
    jobs = args.jobs or int(os.environ.get('VERIF_JOBS', '0')) or \
        min(16, os.cpu_count() or 1)
    os.environ['PBV_TIER'] = tier
    timeout = args.timeout or (900 if tier == 'quick' else 4 * 3600)

    t0 = time.time()
    try:
        mod = load_prop(pid)
    except Exception:  # noqa
        traceback.print_exc()
        print(f'HARNESS-ERROR property={pid} cannot import check module')
        return 2

    # transient replay files of earlier runs of this property
    old = os.path.join(ROOT, 'replay', pid)
    if os.path.isdir(old) and not args.only:
        for fn in os.listdir(old):
            try:
                os.remove(os.path.join(old, fn))
            except OSError:
                pass
    known = load_known(pid)
    merged = TaskResult()
    per_sub = collections.OrderedDict()
    violations = {}
    harness_errors = []

    # ---- tier 0: committed regression replays (bypass Hypothesis) ----------
    regress_dir = os.path.join(ROOT, 'regress', pid)
    regress_run = 0
    if os.path.isdir(regress_dir) and not args.no_regress:
        for fn in sorted(os.listdir(regress_dir)):
            if not fn.endswith('.json'):
                continue
            doc = json.load(open(os.path.join(regress_dir, fn)))
            scs = [s for s in mod.SUBCHECKS if s.name == doc['subcheck']]
            if not scs or (args.only and scs[0].name not in args.only):
                continue
            d = ReplayDraw(doc['choices'], epoch=doc.get('epoch', 1))
            outcome, ctx, info = execute(scs[0], d)
            regress_run += 1
            merged.account(scs[0], outcome, ctx, info, d.choices, False)
            merged.labels['regress-replay'] += 1

    # ---- generated search -------------------------------------------------
    tasks = plan_tasks(pid, mod, tier, verif_seed, jobs, args.scale, args.only)
    # heavy tasks first
    ctxmp = multiprocessing.get_context('fork')
    results = []
    timed_out = False
    if tasks:
        with ctxmp.Pool(min(jobs, len(tasks))) as pool:
            it = pool.imap_unordered(run_task, tasks)
            for _ in range(len(tasks)):
                remaining = timeout - (time.time() - t0)
                try:
                    results.append(it.next(timeout=max(1.0, remaining)))
                except multiprocessing.TimeoutError:
                    timed_out = True
                    pool.terminate()
                    break
            if not timed_out:
                pool.close()
                pool.join()
    results.sort(key=lambda r: (r[0], r[1]))
    for sub_name, shard, res in results:
        ps = per_sub.setdefault(sub_name, TaskResult())
        for tgt in (merged, ps):
            tgt.evaluations += res.evaluations
            tgt.nontrivial |= {(sub_name, x) for x in res.nontrivial}
            tgt.labels.update(res.labels)
            tgt.outcomes.update(res.outcomes)
            tgt.exhaustive.update(res.exhaustive)
            tgt.wall += res.wall
        if ps.first_rejected is None and res.first_rejected is not None:
            ps.first_rejected = res.first_rejected
        if len([s for s in merged.samples if s['subcheck'] == sub_name]) < 1:
            merged.samples.extend(res.samples[:1])
        harness_errors.extend(res.harness_errors)
        for sig, v in res.violations.items():
            if sig not in merged.violations:
                merged.violations[sig] = v
            else:
                merged.violations[sig]['count'] += v['count']
                if len(json.dumps(v['choices'])) < len(
                        json.dumps(merged.violations[sig]['choices'])):
                    cnt = merged.violations[sig]['count']
                    merged.violations[sig] = dict(v, count=cnt)
    violations = merged.violations
    # explicit refusals are allowed case by case (EM may collapse a component,
    # a solver may find no feasible start), but a library that refuses a large
    # share of the valid inputs of a sub-check does not have the property: the
    # unchanged tree refuses 0-8 % (up to 24 % where degenerate data are drawn
    # on purpose: C01, C09, C20)
    for sub_name, ps in per_sub.items():
        n_rej = int(ps.outcomes.get('rejected', 0))
        limit = 0.5 if pid in ('C01', 'C09', 'C20') else 0.3
        if ps.evaluations >= 40 and n_rej > limit * ps.evaluations and \
                ps.first_rejected is not None:
            sig = f'{sub_name}/library-refuses-valid-input-too-often'
            violations[sig] = {
                'sig': sig, 'sub': sub_name,
                'clause': 'library-refuses-valid-input-too-often',
                'detail': f'{n_rej} of {ps.evaluations} generated inputs refused with an '
                          f'explicit exception (limit {limit:.0%}); example: '
                          f'{ps.first_rejected["why"]}',
                'attrs': {}, 'choices': ps.first_rejected['choices'], 'count': n_rej,
                'desc': ps.first_rejected['desc'], 'expect_outcome': 'rejected'}

    # ---- shrink + report --------------------------------------------------
    exit_code = 0
    lines = []
    unknown = 0
    known_hit = collections.Counter()
    sub_by_name = {s.name: s for s in mod.SUBCHECKS}
    for sig in sorted(violations):
        v = violations[sig]
        sc = sub_by_name[v['sub']]
        if sig in known:
            known_hit[sig] += v['count']
            continue
        unknown += 1
        max_runs, max_s = (60, 20.0) if tier == 'quick' else (400, 120.0)
        if unknown > 8:
            max_runs, max_s = 0, 0
        choices, ctx, info, runs = v['choices'], None, None, 0
        if 'steps' in v:
            class _S:
                clause = v['clause']
                detail = v['detail'] + ' [history minimised by the Hypothesis shrinker]'
            info = _S()
        elif v.get('expect_outcome'):
            class _R:
                clause = v['clause']
                detail = v['detail']
            info = _R()
        else:
            try:
                c2, ctx, info, runs = shrink(sc, v['choices'], sig, max_runs, max_s)
                if info is not None:
                    choices = c2
            except Exception:  # noqa
                pass
        if info is None:
            # could not re-execute deterministically: still report the
            # recorded case (flagged)
            class _I:
                clause = v['clause']
                detail = v['detail'] + ' [not reproduced on re-execution]'
            info = _I()
        extra = {'found_in_tier': tier, 'verif_seed': verif_seed,
                 'cases_with_this_signature': v['count'],
                 'shrink_reexecutions': runs}
        if 'steps' in v:
            extra['steps'] = v['steps']
            extra['trainer_kwargs'] = v.get('trainer_kwargs', {})
        if v.get('expect_outcome'):
            extra['expect_outcome'] = v['expect_outcome']
        path = write_replay(pid, sc, sig, choices, ctx, info, extra,
                            'regress' if args.save_regress else 'replay')
        rel = os.path.relpath(path, ROOT)
        lines.append(f'VIOLATION property={pid} replay={rel}')
        print(f'--- {sig}  ({v["count"]} case(s))\n    {info.detail}')
        exit_code = 1
    for sig, text in known.items():
        print(f'KNOWN-FINDING: property={pid} {sig} {text} '
              f'[matching cases this run: {known_hit.get(sig, 0)}]')
    for line in lines:
        print(line)

    # ---- evidence ----------------------------------------------------------
    wall = time.time() - t0
    n_nontrivial = len(merged.nontrivial)
    exhaustive_parts = dict(merged.exhaustive)
    coverage = {
        'evaluations': int(merged.evaluations),
        'distinct_nontrivial': int(n_nontrivial),
        'rule': getattr(mod, 'RULE', ''),
        'samples': merged.samples[:12],
        'classes': dict(sorted(merged.labels.items())),
        'outcomes': dict(merged.outcomes),
        'per_subcheck': {
            name: {'evaluations': r.evaluations,
                   'distinct_nontrivial': len(r.nontrivial),
                   'rejected': int(r.outcomes.get('rejected', 0)),
                   'borderline': int(r.outcomes.get('borderline', 0)),
                   'cpu_s': round(r.wall, 2)}
            for name, r in per_sub.items()},
        'regress_replays': regress_run,
        'excluded_known': int(sum(known_hit.values())),
        'exhaustive_parts': exhaustive_parts,
        'exhaustive': False,
        'violation_signatures': sorted(violations),
    }
    evidence = {
        'property_id': pid, 'tier': tier, 'seed': verif_seed,
        'level': 'exploration', 'coverage': coverage,
        'assumptions': list(getattr(mod, 'ASSUMPTIONS', [])) + [
            'numpy/scipy/LAPACK arithmetic and the independent oracle code in '
            'pbv/oracles are trusted; tolerances as stated per clause in '
            'DESIGN.md',
            'exploration only: absence of violations in the generated cases '
            'is not a proof of absence',
        ],
        'wall_s': round(wall, 3),
        'violations': int(len([s for s in violations if s not in known])),
    }
    status_problem = None
    if harness_errors:
        status_problem = 'harness error'
        for he in harness_errors[:3]:
            print(f'HARNESS-ERROR in {he["sub"]}:\n{he["trace"]}',
                  file=sys.stderr)
    if timed_out:
        status_problem = f'safety timeout after {timeout}s (inconclusive)'
    # vacuity guard
    if not args.only and not status_problem:
        for name, r in per_sub.items():
            sc = sub_by_name[name]
            judged = r.outcomes.get('ok', 0) + r.outcomes.get('violation', 0)
            # (three standard deviations below the required share, so that a
            # sub-check with a budget of a few dozen cases is not reported for
            # an unlucky draw: 2 of 30 where 3 are required)
            need_nt = sc.min_nontrivial * r.evaluations
            need_nt -= 3 * math.sqrt(max(need_nt, 0.0))
            need_j = 0.1 * r.evaluations
            need_j -= 3 * math.sqrt(max(need_j, 0.0))
            if r.evaluations >= 20 and (
                    len(r.nontrivial) < need_nt or judged < need_j):
                status_problem = (
                    f'vacuity guard: sub-check {name} produced '
                    f'{len(r.nontrivial)} non-trivial / {judged} judged of '
                    f'{r.evaluations} cases')
    ev_dir = os.environ.get('VERIF_EVIDENCE_DIR') or os.path.join(ROOT, 'evidence')
    os.makedirs(ev_dir, exist_ok=True)
    ev_path = os.path.join(ev_dir, f'{pid}.json')
    if args.only is None or not os.path.exists(ev_path):
        with open(ev_path, 'w') as f:
            json.dump(evidence, f, indent=1, default=str)
            f.write('\n')
    print(f'{pid} tier={tier} seed={verif_seed} evaluations={merged.evaluations} '
          f'nontrivial={n_nontrivial} violations={evidence["violations"]} '
          f'known={len(known)} wall={wall:.1f}s')
    if status_problem and exit_code == 0:
        print(f'HARNESS-ERROR property={pid} {status_problem}')
        return 2
    return exit_code


if __name__ == '__main__':
    sys.exit(main())
