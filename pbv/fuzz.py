"""Coverage-guided back end: one sub-check as an atheris / libFuzzer target.

    python -m pbv.fuzz <ID> <subcheck> --runs N --seed S --out DIR

The fuzzer's byte string is decoded by core.BytesDraw into the primitives the
sub-check draws; the oracle is the sub-check itself.  The library (pb_bss) is
imported under atheris' instrumentation, so libFuzzer sees its Python-level
branches (axis handling, name parsing, plan construction, guards) and keeps
inputs that reach new ones.  Stops at the first violation whose signature is
not a known finding (exit code 77, replay written to DIR/violation.json);
statistics go to DIR/stats.json.  Exit 0: budget used up without violation.
"""
import argparse
import collections
import importlib
import json
import os
import sys
import time
import traceback


def main():
    ap = argparse.ArgumentParser()
    ap.add_argument('pid')
    ap.add_argument('sub')
    ap.add_argument('--runs', type=int, default=2000)
    ap.add_argument('--seed', type=int, default=1)
    ap.add_argument('--out', required=True)
    ap.add_argument('--max-len', type=int, default=400)
    args = ap.parse_args()
    os.makedirs(args.out, exist_ok=True)
    corpus = os.path.join(args.out, 'corpus')
    os.makedirs(corpus, exist_ok=True)
    import atheris
    with atheris.instrument_imports(include=['pb_bss'], enable_loader_override=False):
        import pb_bss.distribution                      # noqa: F401
        import pb_bss.extraction.beamformer             # noqa: F401
        import pb_bss.extraction.beamformer_wrapper     # noqa: F401
        import pb_bss.extraction.mask_module            # noqa: F401
        import pb_bss.permutation_alignment             # noqa: F401
        import pb_bss.evaluation.sxr_module             # noqa: F401
        import pb_bss.evaluation.module_si_sdr          # noqa: F401
        import pb_bss.initializer                       # noqa: F401
        import pb_bss.math.solve                        # noqa: F401
    import numpy as np
    from pbv.core import (BytesDraw, Borderline, Ctx, Rejected, Violation,
                          digest_choices, jsonable)
    from pbv.runner import load_known, signature
    mod = importlib.import_module(f'pbv.props.{args.pid.lower()}')
    sc = next(s for s in mod.SUBCHECKS if s.name == args.sub)
    known = load_known(args.pid)
    stats = dict(executions=0, outcomes=collections.Counter(), nontrivial=set(),
                 excluded_known=0, labels=collections.Counter(), t0=time.time(),
                 harness_errors=[])

    def flush(extra=None):
        out = dict(executions=stats['executions'], outcomes=dict(stats['outcomes']),
                   distinct_nontrivial=len(stats['nontrivial']),
                   nontrivial=sorted(stats['nontrivial'])[:20000],
                   excluded_known=stats['excluded_known'],
                   labels=dict(stats['labels'].most_common(60)),
                   wall=round(time.time() - stats['t0'], 1),
                   harness_errors=stats['harness_errors'][:3])
        if extra:
            out.update(extra)
        with open(os.path.join(args.out, 'stats.json'), 'w') as f:
            json.dump(out, f)

    def one(data):
        d = BytesDraw(data)
        ctx = Ctx(d)
        stats['executions'] += 1
        try:
            with np.errstate(all='ignore'):
                sc.fn(d, ctx)
            outcome = 'ok'
        except Violation as v:
            sig = signature(sc.name, v)
            if sig in known:
                stats['excluded_known'] += 1
                outcome = 'known'
            else:
                flush(dict(violation=dict(
                    signature=sig, clause=v.clause, detail=v.detail,
                    attrs=jsonable(v.attrs), choices=d.choices, case=ctx.desc)))
                os._exit(77)
        except Rejected:
            outcome = 'rejected'
        except Borderline:
            outcome = 'borderline'
        except Exception:  # noqa
            outcome = 'harness_error'
            stats['harness_errors'].append(traceback.format_exc()[-1500:])
            flush()
            os._exit(78)
        stats['outcomes'][outcome] += 1
        for lab in ctx.labels[:6]:
            stats['labels'][lab] += 1
        if ctx._nontrivial and outcome == 'ok':
            stats['nontrivial'].add(digest_choices(d.choices).hex())
        if stats['executions'] % 500 == 0 or stats['executions'] >= args.runs:
            flush()

    argv = [sys.argv[0], f'-runs={args.runs}', f'-seed={args.seed}',
            f'-max_len={args.max_len}', '-len_control=0', '-print_final_stats=1',
            f'-artifact_prefix={args.out}/', corpus]
    atheris.Setup(argv, one)
    atheris.Fuzz()


if __name__ == '__main__':
    main()
