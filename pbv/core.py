"""Core of the property-based verification engine.

A *sub-check* is one function ``fn(d, ctx)``.  All random choices are made
through the draw object ``d`` (see :class:`HypothesisDraw`, :class:`ReplayDraw`),
the code under test is called through ``ctx.lib`` and every violated clause is
reported by raising :class:`Violation`.  The same function therefore serves

* generation (Hypothesis is the generator engine),
* shrinking (greedy reduction of the recorded choice sequence), and
* replay (``./check ID --replay FILE`` re-executes the recorded choices without
  Hypothesis).
"""
import hashlib
import json
import math
import os

import numpy as np


class Violation(Exception):
    """The property is violated.  ``clause`` names the violated clause."""

    def __init__(self, clause, detail='', **attrs):
        super().__init__(f'{clause}: {detail}')
        self.clause = clause
        self.detail = detail
        self.attrs = attrs


class Rejected(Exception):
    """The code under test refused the input with an explicit exception where
    the property allows that.  Counted, never a violation."""

    def __init__(self, why=''):
        super().__init__(why)
        self.why = why


class Borderline(Exception):
    """The outcome depends on a comparison closer than the stated tolerance
    (threshold ties ...).  Counted and not judged."""


class HarnessError(Exception):
    pass


# --------------------------------------------------------------------------
# draw back ends
# --------------------------------------------------------------------------

# Generation of the generators.  A committed replay file records choices, not
# data: a generator decision added later (from the ``aux`` side streams) that
# changes the *content* of a case would silently turn a regression replay into
# another case.  Replay files carry the epoch they were written in; decisions
# introduced with a later epoch are skipped when an older file is replayed.
GENERATOR_EPOCH = 4


class _DrawBase:
    """Interface shared by all back ends.  Every primitive records
    ``[kind, value, lo]`` in ``self.choices``."""

    epoch = GENERATOR_EPOCH

    def __init__(self):
        self.choices = []

    # primitives implemented by the back ends
    def _int(self, lo, hi):
        raise NotImplementedError

    def _float(self, lo, hi):
        raise NotImplementedError

    def _ints(self, n, hi):
        raise NotImplementedError

    # public API -----------------------------------------------------------
    def int(self, lo, hi):
        lo, hi = int(lo), int(hi)
        assert lo <= hi, (lo, hi)
        v = self._int(lo, hi)
        self.choices.append(['i', int(v), lo])
        return int(v)

    def bool(self):
        return bool(self.int(0, 1))

    def choice(self, seq):
        seq = list(seq)
        return seq[self.int(0, len(seq) - 1)]

    def float(self, lo, hi):
        lo, hi = float(lo), float(hi)
        v = float(self._float(lo, hi))
        self.choices.append(['f', v, lo])
        return v

    def log10(self, lo, hi):
        """10**u with u uniform in [lo, hi]."""
        return 10.0 ** self.float(lo, hi)

    def seed(self):
        v = self._int(0, 2 ** 32 - 1)
        self.choices.append(['s', int(v), 0])
        return int(v)

    def rng(self):
        return np.random.default_rng(self.seed())

    def aux(self, tag):
        """a second random stream derived from the last recorded seed: for
        decisions added to a generator later on, so that the recorded choice
        lists of committed replays keep their meaning"""
        seeds = [c[1] for c in self.choices if c[0] == 's']
        if seeds:
            base = seeds[-1]
        else:
            # no seed drawn yet: derive the stream from everything drawn so far
            base = int.from_bytes(digest_choices(self.choices)[:8], 'little')
        return np.random.default_rng([base, int(tag)])

    def ints(self, n, hi):
        """List of n integers in [0, hi] (one recorded choice)."""
        n, hi = int(n), int(hi)
        v = [int(x) for x in self._ints(n, hi)]
        assert len(v) == n
        self.choices.append(['a', v, 0])
        return v

    def small_array(self, shape, alphabet):
        alphabet = list(alphabet)
        n = int(np.prod(shape, dtype=np.int64))
        idx = self.ints(n, len(alphabet) - 1)
        return np.array([alphabet[i] for i in idx]).reshape(shape)

    def perm(self, n):
        """Permutation of range(n) (Fisher-Yates over drawn integers; all
        zeros is the identity, so it shrinks towards the identity)."""
        p = list(range(n))
        for i in range(n - 1):
            j = i + self.int(0, n - 1 - i)
            p[i], p[j] = p[j], p[i]
        return p

    def subset(self, n, min_size=0, max_size=None):
        """Sorted subset of range(n)."""
        max_size = n if max_size is None else max_size
        k = self.int(min_size, min(max_size, n))
        p = self.perm(n) if k not in (0, n) else list(range(n))
        return sorted(p[:k])


class HypothesisDraw(_DrawBase):
    def __init__(self, data):
        super().__init__()
        self._data = data
        from hypothesis import strategies as st
        self._st = st

    _strategies = {}

    def _int(self, lo, hi):
        # st.integers() favours the bounds and zero (measured: the minimum of a
        # 6-value range is drawn in 37 % of the cases, of a 75-value range in
        # 19 %), which starves every option that is not listed first.  Small
        # ranges are therefore drawn with sampled_from (uniform); the recorded
        # choice is the value itself either way.
        key = (lo, hi)
        strat = self._strategies.get(key)
        if strat is None:
            if hi - lo <= 255:
                strat = self._st.sampled_from(range(lo, hi + 1))
            else:
                strat = self._st.integers(lo, hi)
            if len(self._strategies) < 4096:
                self._strategies[key] = strat
        return self._data.draw(strat)

    def _float(self, lo, hi):
        return self._data.draw(self._st.floats(
            lo, hi, allow_nan=False, allow_infinity=False))

    def _ints(self, n, hi):
        return self._data.draw(self._st.lists(
            self._st.integers(0, hi), min_size=n, max_size=n))


class BytesDraw(_DrawBase):
    """Decodes a byte string (libFuzzer / atheris input) into the same
    primitives.  Every draw consumes a fixed number of bytes for its range, so
    that byte-level mutations map to local changes of single choices; an
    exhausted input yields the minimum.  The decoded values are recorded like
    everywhere else, i.e. a failing input is stored and replayed as a choice
    list, independent of this encoding."""

    def __init__(self, data):
        super().__init__()
        self._data = bytes(data)
        self._pos = 0

    def _take(self, n):
        chunk = self._data[self._pos:self._pos + n]
        self._pos += n
        return int.from_bytes(chunk.ljust(n, b'\0'), 'little')

    def _int(self, lo, hi):
        span = hi - lo
        if span <= 0:
            return lo
        nbytes = max(1, (span.bit_length() + 7) // 8)
        return lo + self._take(nbytes) % (span + 1)

    def _float(self, lo, hi):
        if hi <= lo:
            return lo
        v = self._take(4)
        # the end points and the middle get a share of their own
        if v % 16 == 0:
            return [lo, hi, (lo + hi) / 2][(v // 16) % 3]
        return lo + (hi - lo) * (v / 2.0 ** 32)

    def _ints(self, n, hi):
        nbytes = max(1, (int(hi).bit_length() + 7) // 8)
        return [self._take(nbytes) % (hi + 1) for _ in range(n)]


class ReplayDraw(_DrawBase):
    """Replays a recorded choice list.  Values are clamped into the range the
    generator asks for (ranges may depend on earlier, shrunk choices); once the
    list is exhausted the minimum is returned."""

    def __init__(self, recorded, epoch=None):
        super().__init__()
        self._rec = list(recorded)
        self._pos = 0
        if epoch is not None:
            self.epoch = int(epoch)

    def _next(self, kind):
        if self._pos < len(self._rec):
            item = self._rec[self._pos]
            self._pos += 1
            if item[0] == kind or (kind == 'i' and item[0] == 's'):
                return item[1]
            return None
        return None

    def _int(self, lo, hi):
        v = self._next('i')
        if v is None or isinstance(v, list):
            return lo
        return min(max(int(v), lo), hi)

    def _float(self, lo, hi):
        v = self._next('f')
        if v is None or isinstance(v, list):
            return lo
        v = float(v)
        if not math.isfinite(v):
            return lo
        return min(max(v, lo), hi)

    def _ints(self, n, hi):
        v = self._next('a')
        if not isinstance(v, list):
            v = []
        v = [min(max(int(x), 0), hi) for x in v[:n]]
        return v + [0] * (n - len(v))

    # 'seed' uses _int(0, 2**32-1) with kind 's'
    def seed(self):
        v = self._next('s')
        if v is None or isinstance(v, list):
            v = 0
        v = min(max(int(v), 0), 2 ** 32 - 1)
        self.choices.append(['s', v, 0])
        return v


# --------------------------------------------------------------------------
# per-case context
# --------------------------------------------------------------------------

def _short(x, limit=160):
    s = repr(x)
    return s if len(s) <= limit else s[:limit] + '...'


class Ctx:
    """Collects what one case did: labels, non-triviality, a compact
    descriptor and (optionally) arrays for the replay file."""

    def __init__(self, d=None):
        self.labels = []
        self._nontrivial = False
        self.desc = {}
        self.arrays = {}
        self.sig_attrs = {}
        # draw object of the case (decides, reproducibly, on which library
        # calls the value protocol runs) - None: protocol off
        self.d = d
        self.value_protocol = d is not None
        self._lib_calls = 0
        self.protocol_runs = 0

    def label(self, *labels):
        for lab in labels:
            self.labels.append(str(lab))

    def nontrivial(self, flag=True):
        self._nontrivial = bool(flag)

    def describe(self, **kw):
        for k, v in kw.items():
            self.desc[k] = jsonable(v)

    def keep(self, **arrays):
        for k, v in arrays.items():
            self.arrays[k] = np.asarray(v)

    def lib(self, fn, *args, allow=(), allow_if=None, clause='raises',
            **kwargs):
        """Call the code under test.  An exception of a type in ``allow`` (or
        accepted by the predicate ``allow_if``) means the input was refused
        explicitly (Rejected); any other exception is a violation of
        ``clause``."""
        self._lib_calls += 1
        turn = None
        if self.value_protocol and self.d is not None:
            # one library call in four, chosen by what has been drawn so far
            # (the same under replay)
            key = len(self.d.choices) + self._lib_calls
            if key % 4 == 0:
                turn = key // 4
        if turn is not None:
            state = np.random.get_state()
        try:
            result = fn(*args, **kwargs)
            if turn is not None:
                self._value_protocol(fn, args, kwargs, state, turn)
            return result
        except (Violation, Rejected, Borderline):
            raise
        except allow as e:  # noqa
            raise Rejected(f'{type(e).__name__}: {_short(str(e), 120)}')
        except Exception as e:  # noqa
            if allow_if is not None and allow_if(e):
                raise Rejected(f'{type(e).__name__}: {_short(str(e), 120)}')
            name = getattr(fn, '__qualname__', getattr(fn, '__name__', str(fn)))
            raise Violation(
                clause, f'{name} raised {type(e).__name__}: '
                        f'{_short(str(e), 300)}', exc=type(e).__name__)


def _value_protocol(self, fn, args, kwargs, state, turn):
    """results are a function of the argument values (pbv.valueproto): a
    caller's array refilled in place must give what a fresh array with the
    same content gives - whatever the property, a stale or aliased result is
    not the documented function of the input"""
    from pbv import valueproto as vp
    passed, seen = [], set()
    vp.reachable_arrays(args, passed, seen)
    vp.reachable_arrays(kwargs, passed, seen)
    for cell in (getattr(fn, '__closure__', None) or ()):
        try:
            vp.reachable_arrays(cell.cell_contents, passed, seen)
        except ValueError:
            pass
    if not passed:
        return
    after = np.random.get_state()
    try:
        detail = vp.refilled_buffer(fn, args, kwargs, passed, state, turn)
    finally:
        np.random.set_state(after)
    if detail is None:
        return
    self.protocol_runs += 1
    if detail:
        raise Violation('result-depends-on-array-identity-not-content',
                        f'{vp.entry_name(fn)}: {detail}', entry=vp.entry_name(fn))


Ctx._value_protocol = _value_protocol


def jsonable(x):
    if isinstance(x, (str, bool, int, type(None))):
        return x
    if isinstance(x, float):
        return x if math.isfinite(x) else repr(x)
    if isinstance(x, (np.integer,)):
        return int(x)
    if isinstance(x, (np.floating,)):
        return jsonable(float(x))
    if isinstance(x, (np.bool_,)):
        return bool(x)
    if isinstance(x, complex):
        return repr(x)
    if isinstance(x, np.ndarray):
        if x.size <= 24:
            return jsonable(x.tolist())
        return f'ndarray{x.shape}:{x.dtype}'
    if isinstance(x, dict):
        return {str(k): jsonable(v) for k, v in x.items()}
    if isinstance(x, (list, tuple, set, frozenset)):
        return [jsonable(v) for v in x]
    return _short(x, 80)


def digest_choices(choices):
    return hashlib.sha1(
        json.dumps(choices, separators=(',', ':')).encode()).digest()[:10]


# --------------------------------------------------------------------------
# sub-check registry
# --------------------------------------------------------------------------

class SubCheck:
    def __init__(self, fn, name, quick, thorough, shards_quick=None,
                 shards_thorough=None, exhaustive=None, min_nontrivial=0.10,
                 fuzz=0):
        self.fn = fn
        self.name = name
        self.quick = quick
        self.thorough = thorough
        self.shards_quick = shards_quick
        self.shards_thorough = shards_thorough
        # exhaustive: optional callable yielding choice lists (complete
        # enumeration of a finite sub-domain), or None
        self.exhaustive = exhaustive
        self.min_nontrivial = min_nontrivial
        # fuzz: libFuzzer executions per shard of the coverage-guided part
        # (atheris, thorough tier only; 0 = none)
        self.fuzz = fuzz


def subcheck(registry, name=None, quick=200, thorough=4000, **kw):
    def deco(fn):
        sc = SubCheck(fn, name or fn.__name__, quick, thorough, **kw)
        registry.append(sc)
        return fn
    return deco


# --------------------------------------------------------------------------
# numeric helpers used by many property modules
# --------------------------------------------------------------------------

def require(cond, clause, detail='', **attrs):
    if not cond:
        raise Violation(clause, detail() if callable(detail) else detail,
                        **attrs)


def close(a, b, *, rtol=0.0, atol=0.0, scale=None):
    """max |a-b| <= atol + rtol*scale  (scale defaults to max(|a|,|b|))."""
    a = np.asarray(a)
    b = np.asarray(b)
    # boolean / integer arrays (hard partitions, counts) are compared as numbers
    if a.dtype.kind in 'biu':
        a = a.astype(np.float64)
    if b.dtype.kind in 'biu':
        b = b.astype(np.float64)
    if a.shape != b.shape:
        try:
            a, b = np.broadcast_arrays(a, b)
        except ValueError:
            return False, f'shape {a.shape} vs {b.shape}'
    if a.size == 0:
        return True, ''
    if not (np.all(np.isfinite(a)) and np.all(np.isfinite(b))):
        same = np.array_equal(np.isfinite(a), np.isfinite(b)) and np.allclose(
            a[np.isfinite(a)], b[np.isfinite(b)], rtol=rtol, atol=atol)
        return bool(same), 'non-finite values'
    err = float(np.max(np.abs(a - b)))
    if scale is None:
        scale = max(float(np.max(np.abs(a))), float(np.max(np.abs(b))))
    tol = atol + rtol * float(scale)
    return err <= tol, f'max|diff|={err:.3e} tol={tol:.3e}'


def require_close(a, b, clause, *, rtol=0.0, atol=0.0, scale=None, what='',
                  **attrs):
    ok, msg = close(a, b, rtol=rtol, atol=atol, scale=scale)
    if not ok:
        raise Violation(clause, f'{what} {msg}'.strip(), **attrs)


def env_repo():
    return os.environ.get('VERIF_REPO', '/repo')
