"""Independent reference densities (no import of pb_bss).

All functions evaluate ONE distribution (no leading axes) at points of shape
(N, D); callers loop over leading indices explicitly, which is the point of an
"obviously correct" reference.
"""
import math
from decimal import Decimal, getcontext

import numpy as np
import scipy.integrate
import scipy.linalg
import scipy.special
import scipy.stats


# ---------------------------------------------------------------- Gaussians

def gaussian_logpdf(y, mean, cov):
    """Real Gaussian, full covariance (D, D); y (N, D)."""
    y = np.asarray(y, dtype=np.float64)
    mean = np.asarray(mean, dtype=np.float64)
    cov = np.asarray(cov, dtype=np.float64)
    D = mean.shape[-1]
    diff = y - mean
    sign, logdet = np.linalg.slogdet(cov)
    sol = np.linalg.solve(cov, diff.T).T
    maha = np.einsum('nd,nd->n', diff, sol)
    return -0.5 * (D * math.log(2 * math.pi) + logdet + maha)


def gaussian_logpdf_scipy(y, mean, cov):
    return np.atleast_1d(scipy.stats.multivariate_normal(
        mean=mean, cov=cov, allow_singular=False).logpdf(y))


def diag_gaussian_logpdf(y, mean, var):
    y = np.asarray(y, dtype=np.float64)
    var = np.asarray(var, dtype=np.float64)
    return np.sum(
        -0.5 * (np.log(2 * np.pi * var) + (y - mean) ** 2 / var), axis=-1)


def spherical_gaussian_logpdf(y, mean, var):
    D = np.asarray(mean).shape[-1]
    return diag_gaussian_logpdf(y, mean, np.full(D, float(var)))


def complex_gaussian_logpdf(y, cov):
    """Circularly symmetric complex Gaussian: pi^-D det(C)^-1 exp(-y^H C^-1 y)
    evaluated through the equivalent 2D-dimensional real Gaussian."""
    y = np.asarray(y, dtype=np.complex128)
    cov = np.asarray(cov, dtype=np.complex128)
    D = cov.shape[-1]
    real_cov = 0.5 * np.block([[cov.real, -cov.imag], [cov.imag, cov.real]])
    yr = np.concatenate([y.real, y.imag], axis=-1)
    return gaussian_logpdf(yr, np.zeros(2 * D), real_cov)


def complex_gaussian_logpdf_direct(y, cov):
    y = np.asarray(y, dtype=np.complex128)
    D = cov.shape[-1]
    sign, logdet = np.linalg.slogdet(cov)
    sol = np.linalg.solve(cov, y.T).T
    q = np.einsum('nd,nd->n', y.conj(), sol).real
    return -D * math.log(math.pi) - logdet - q


# ------------------------------------------------------------------- vMF

def vmf_logpdf(y, mean, kappa):
    """von Mises-Fisher on the unit sphere S^{D-1}; y is normalised here."""
    y = np.asarray(y, dtype=np.float64)
    y = y / np.linalg.norm(y, axis=-1, keepdims=True)
    D = y.shape[-1]
    nu = D / 2 - 1
    # log C_D(kappa) = nu log kappa - D/2 log 2pi - log I_nu(kappa)
    log_bessel = np.log(scipy.special.ive(nu, kappa)) + kappa
    log_c = nu * math.log(kappa) - (D / 2) * math.log(2 * math.pi) - log_bessel
    return log_c + kappa * (y @ np.asarray(mean, dtype=np.float64))


def vmf_logpdf_scipy(y, mean, kappa):
    y = np.asarray(y, dtype=np.float64)
    y = y / np.linalg.norm(y, axis=-1, keepdims=True)
    return np.atleast_1d(
        scipy.stats.vonmises_fisher(mean, kappa).logpdf(y))


def vmf_log_norm_quadrature(D, kappa):
    """log of int_{S^{D-1}} exp(kappa mu^T x) dx by 1-d quadrature."""
    # area(S^{D-2}) * int_{-1}^{1} exp(kappa t) (1-t^2)^{(D-3)/2} dt
    area = 2 * math.pi ** ((D - 1) / 2) / math.gamma((D - 1) / 2)
    f = lambda t: math.exp(kappa * (t - 1)) * (1 - t * t) ** ((D - 3) / 2)
    val, err = scipy.integrate.quad(f, -1, 1, epsabs=0, epsrel=1e-12,
                                    limit=400)
    return math.log(area) + math.log(val) + kappa


# ------------------------------------------------------------- complex Watson

def sphere_area_complex(D):
    return 2 * math.pi ** D / math.factorial(D - 1)


def hyp1f1_1_series(D, kappa):
    """log 1F1(1; D; kappa) = log sum_n kappa^n / (D)_n, all terms positive."""
    kappa = float(kappa)
    term = 1.0
    total = 1.0
    n = 0
    # scale to avoid overflow: work with logs when kappa is big
    logs = [0.0]
    lt = 0.0
    while True:
        lt += math.log(kappa) - math.log(D + n) if kappa > 0 else -math.inf
        n += 1
        logs.append(lt)
        if n > kappa + 50 and lt < max(logs) - 60:
            break
        if n > 5000:
            break
    m = max(logs)
    return m + math.log(sum(math.exp(v - m) for v in logs))


def watson_log_norm(D, kappa):
    """log of int over the complex unit sphere of exp(kappa |w^H z|^2)."""
    if kappa == 0:
        return math.log(sphere_area_complex(D))
    return math.log(sphere_area_complex(D)) + hyp1f1_1_series(D, kappa)


def watson_log_norm_quadrature(D, kappa):
    """Same by integration: t = |w^H z|^2 ~ Beta(1, D-1) under the uniform
    distribution on the complex sphere."""
    if D == 1:
        return math.log(sphere_area_complex(1)) + kappa
    f = lambda t: (D - 1) * (1 - t) ** (D - 2) * math.exp(kappa * (t - 1))
    val, err = scipy.integrate.quad(f, 0, 1, epsabs=0, epsrel=1e-12, limit=400)
    return math.log(sphere_area_complex(D)) + math.log(val) + kappa


def watson_logpdf(z, mode, kappa):
    """z (N, D) assumed unit norm; mode (D,) unit norm."""
    z = np.asarray(z, dtype=np.complex128)
    mode = np.asarray(mode, dtype=np.complex128)
    D = z.shape[-1]
    t = np.abs(z @ mode.conj()) ** 2
    return kappa * t - watson_log_norm(D, kappa)


def watson_mean_t(D, kappa):
    """E_kappa[|w^H z|^2] = d/dkappa log c(kappa), by quadrature."""
    if kappa == 0:
        return 1.0 / D
    num = scipy.integrate.quad(
        lambda t: t * (D - 1) * (1 - t) ** (D - 2) * math.exp(kappa * (t - 1)),
        0, 1, epsabs=0, epsrel=1e-12, limit=400)[0]
    den = scipy.integrate.quad(
        lambda t: (D - 1) * (1 - t) ** (D - 2) * math.exp(kappa * (t - 1)),
        0, 1, epsabs=0, epsrel=1e-12, limit=400)[0]
    return num / den


# ------------------------------------------------------------ complex Bingham

def bingham_log_norm(eigenvalues, digits=120):
    """log of int over the complex unit sphere of exp(z^H B z) for Hermitian B
    with the given (pairwise distinct) eigenvalues:
    c = 2 pi^D sum_j exp(l_j) / prod_{k != j} (l_j - l_k)
    evaluated in high-precision decimal arithmetic (heavy cancellation)."""
    getcontext().prec = digits
    lam = [Decimal(repr(float(x))) for x in eigenvalues]
    D = len(lam)
    shift = max(lam)
    total = Decimal(0)
    for j in range(D):
        prod = Decimal(1)
        for k in range(D):
            if k != j:
                prod *= (lam[j] - lam[k])
        total += (lam[j] - shift).exp() / prod
    if total <= 0:
        raise ArithmeticError('bingham normaliser not positive')
    val = total.ln() + shift + (Decimal(2) * Decimal(math.pi) ** D).ln()
    return float(val)


def bingham_log_norm_quadrature(eigenvalues):
    """Independent check for D = 2, 3: the squared moduli (s_1..s_D) of a
    uniform point on the complex sphere are uniform on the simplex."""
    lam = [float(x) for x in eigenvalues]
    D = len(lam)
    m = max(lam)
    area = sphere_area_complex(D)
    if D == 2:
        f = lambda s: math.exp(lam[0] * s + lam[1] * (1 - s) - m)
        val = scipy.integrate.quad(f, 0, 1, epsabs=0, epsrel=1e-12)[0]
        return math.log(area) + math.log(val) + m
    if D == 3:
        f = lambda s2, s1: 2 * math.exp(
            lam[0] * s1 + lam[1] * s2 + lam[2] * (1 - s1 - s2) - m)
        val = scipy.integrate.dblquad(
            f, 0, 1, lambda s1: 0, lambda s1: 1 - s1,
            epsabs=1e-13, epsrel=1e-11)[0]
        return math.log(area) + math.log(val) + m
    raise ValueError(D)


def bingham_logpdf(z, eigenvectors, eigenvalues):
    """z (N, D) unit norm; B = V diag(l) V^H."""
    z = np.asarray(z, dtype=np.complex128)
    V = np.asarray(eigenvectors, dtype=np.complex128)
    lam = np.asarray(eigenvalues, dtype=np.float64)
    B = (V * lam) @ V.conj().T
    q = np.einsum('nd,de,ne->n', z.conj(), B, z).real
    return q - bingham_log_norm(lam)


# -------------------------------------------------------------------- cACG

def cacg_logpdf(z, covariance):
    """Complex angular central Gaussian, *un-normalised by the sphere area* as
    the library defines it:  -D log(z^H B^-1 z) - log det B  (z unit norm)."""
    z = np.asarray(z, dtype=np.complex128)
    B = np.asarray(covariance, dtype=np.complex128)
    D = B.shape[-1]
    sign, logdet = np.linalg.slogdet(B)
    sol = np.linalg.solve(B, z.T).T
    q = np.einsum('nd,nd->n', z.conj(), sol).real
    return -D * np.log(q) - logdet


def cacg_integral_quadrature(covariance_eigenvalues):
    """E_uniform[(z^H B^-1 z)^-D] / det B  (must be 1) for D = 2, 3, with B
    diagonal wlog (unitary invariance of the uniform distribution)."""
    lam = np.asarray(covariance_eigenvalues, dtype=np.float64)
    D = len(lam)
    inv = 1.0 / lam
    det = float(np.prod(lam))
    if D == 2:
        f = lambda s: (inv[0] * s + inv[1] * (1 - s)) ** (-2)
        val = scipy.integrate.quad(f, 0, 1, epsabs=0, epsrel=1e-12)[0]
        return val / det
    if D == 3:
        f = lambda s2, s1: 2 * (inv[0] * s1 + inv[1] * s2
                                + inv[2] * (1 - s1 - s2)) ** (-3)
        val = scipy.integrate.dblquad(
            f, 0, 1, lambda s1: 0, lambda s1: 1 - s1,
            epsabs=1e-13, epsrel=1e-11)[0]
        return val / det
    raise ValueError(D)
