"""Naive reference estimators (explicit loops, one distribution at a time).

No import of pb_bss.  ``w`` are non-negative observation weights (saliency
times class posterior), ``y`` has shape (N, D).
"""
import math

import numpy as np
import scipy.optimize

from pbv.oracles import densities as od


def weighted_mean(y, w):
    N, D = y.shape
    acc = np.zeros(D, dtype=y.dtype)
    tot = 0.0
    for n in range(N):
        acc = acc + w[n] * y[n]
        tot += w[n]
    return acc / tot


def weighted_scatter(y, w, center=None):
    """sum_n w_n (y_n-c)(y_n-c)^H / sum_n w_n"""
    N, D = y.shape
    acc = np.zeros((D, D), dtype=np.result_type(y.dtype, np.float64))
    tot = 0.0
    for n in range(N):
        v = y[n] if center is None else y[n] - center
        acc = acc + w[n] * np.outer(v, v.conj())
        tot += w[n]
    return acc / tot


def gaussian_ml(y, w, covariance_type):
    mean = weighted_mean(y, w)
    S = weighted_scatter(y, w, mean).real
    if covariance_type == 'full':
        return mean, S
    if covariance_type == 'diagonal':
        return mean, np.diag(S).copy()
    return mean, float(np.trace(S) / y.shape[1])


def unit(y):
    n = np.linalg.norm(y, axis=-1, keepdims=True)
    return y / np.where(n == 0, 1, n)


def vmf_ml(x, w, min_concentration, max_concentration):
    """Banerjee et al. (2005): mean direction and Eq. 4.4 concentration"""
    x = unit(x)
    N, D = x.shape
    r = np.zeros(D)
    for n in range(N):
        r = r + w[n] * x[n]
    norm = math.sqrt(float(r @ r))
    mean = r / norm if norm > 0 else r
    r_bar = norm / float(np.sum(w))
    den = 1 - r_bar ** 2
    # (all observations on one ray: resultant length one, concentration at its bound)
    kappa = (r_bar * D - r_bar ** 3) / den if den > 0 else math.inf
    kappa = min(max(kappa, min_concentration), max_concentration)
    return mean, kappa, r_bar


def top_eigenpair(S):
    S = (S + S.conj().T) / 2
    lam, V = np.linalg.eigh(S)
    return V[:, -1], float(lam[-1]), lam


def watson_ml_residual(D, kappa, lam_max):
    """E_kappa[|w^H z|^2] - lam_max  (zero at the ML concentration)"""
    return od.watson_mean_t(D, kappa) - lam_max


def watson_ml_concentration(D, lam_max, max_concentration):
    lo, hi = 0.0, float(max_concentration)
    if lam_max <= od.watson_mean_t(D, 0.0):
        return 0.0
    if lam_max >= od.watson_mean_t(D, hi):
        return hi
    return scipy.optimize.brentq(
        lambda k: od.watson_mean_t(D, k) - lam_max, lo, hi, xtol=1e-10,
        rtol=1e-12)


def tyler_step(z, w, q, D):
    """B = D sum_n w_n z_n z_n^H / q_n / sum_n w_n   (z unit norm, (N, D))"""
    N = z.shape[0]
    acc = np.zeros((D, D), dtype=np.complex128)
    tot = 0.0
    for n in range(N):
        acc = acc + (w[n] / q[n]) * np.outer(z[n], z[n].conj())
        tot += w[n]
    return D * acc / tot


def cacg_normalise(B, covariance_norm, floor, hermitize=True):
    """eigen-decomposition based normalisation and flooring as documented:
    'eigenvalue': max eigenvalue 1, floor absolute; 'trace': unit trace,
    floor relative to the max; False: floor relative to the max.
    Returns the normalised, floored covariance matrix."""
    if hermitize:
        B = (B + B.conj().T) / 2
    if covariance_norm == 'trace':
        B = B / np.trace(B).real
    lam, V = np.linalg.eigh(B)
    if covariance_norm == 'eigenvalue':
        lam = lam / lam.max()
        lam = np.maximum(lam, floor)
    else:
        lam = np.maximum(lam, lam.max() * floor)
    return (V * lam) @ V.conj().T


def quadratic_form(z, B):
    sol = np.linalg.solve(B, z.T).T
    return np.einsum('nd,nd->n', z.conj(), sol).real


def bingham_moments(lam, h=1e-5):
    """d/d lam_j log c(lam) by central differences of the high-precision
    normaliser = E[|z_j|^2] in the eigenbasis."""
    lam = np.asarray(lam, dtype=np.float64)
    out = np.zeros_like(lam)
    for j in range(len(lam)):
        up = lam.copy()
        dn = lam.copy()
        up[j] += h
        dn[j] -= h
        out[j] = (od.bingham_log_norm(up) - od.bingham_log_norm(dn)) / (2 * h)
    return out


def mixture_weight(aff, sal, axes):
    """aff (*lead, K, N) ; sal (*lead, N) or None ; axes: tuple of axes of
    aff (non-negative) over which the weights are tied (class axis excluded).
    Returns weights with singleton tied axes, normalised over classes."""
    nd = aff.ndim
    a = aff if sal is None else aff * sal[..., None, :]
    s = a.sum(axis=tuple(axes), keepdims=True)
    if sal is None:
        cnt = 1
        for ax in axes:
            cnt *= aff.shape[ax]
        return s / cnt
    tot = s.sum(axis=nd - 2, keepdims=True)
    return s / np.where(tot == 0, 1, tot)
