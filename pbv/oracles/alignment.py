"""Loop-level transcription of the alignment procedures (no import of
pb_bss): DHTV segment plan, centroid iteration with per-bin reassignment, and
the greedy adjacent-bin chain."""
import itertools

import numpy as np


def plan(F, start, width, shift, main_iterations, sub_iterations):
    """main segment first, then alternately the next higher and the next
    lower overlapping segment; the outermost segments are stretched to the
    band edges.  Returns [iterations, begin, end) triples."""
    higher = [[sub_iterations, s, s + width]
              for s in range(start + shift, F - width, shift)]
    lower = [[sub_iterations, s, s + width]
             for s in range(start - shift, 0, -shift)]
    first = [main_iterations, start, start + width]
    if higher:
        higher[-1][2] = F
    else:
        first[2] = F
    if lower:
        lower[-1][1] = 0
    else:
        first[1] = 0
    out = [first]
    for i in range(max(len(higher), len(lower))):
        if i < len(higher):
            out.append(higher[i])
        if i < len(lower):
            out.append(lower[i])
    return out


def normalise(a):
    n = np.linalg.norm(a, axis=-1, keepdims=True)
    return a / np.maximum(n, np.finfo(n.dtype).tiny)


def score(est, ref, metric):
    """score[k_ref, k_est]"""
    K = est.shape[0]
    s = np.empty((K, K))
    for i in range(K):
        for j in range(K):
            if metric == 'euclidean':
                s[i, j] = -np.sqrt(np.sum(np.abs(est[j] - ref[i]) ** 2))
            else:
                s[i, j] = np.sum(est[j] * ref[i])
    return s


def assign(s, algorithm):
    """mapping[k_ref] = k_est; also reports whether a tie was met"""
    K = s.shape[0]
    tie = False
    if algorithm == 'optimal':
        best, best_p = -np.inf, None
        totals = []
        for p in itertools.permutations(range(K)):
            t = sum(s[k, p[k]] for k in range(K))
            totals.append(t)
            if t > best:
                best, best_p = t, p
        totals = sorted(totals)
        # (relative to the magnitude of the scores: masks of any level)
        level = float(np.max(np.abs(s))) if np.size(s) else 0.0
        if len(totals) > 1 and totals[-1] - totals[-2] <= 1e-12 * K * level:
            tie = True
        return list(best_p), tie
    s = s.astype(float).copy()
    level = float(np.max(np.abs(s))) if np.size(s) else 0.0
    out = [None] * K
    for _ in range(K):
        flat = np.sort(s[np.isfinite(s)].ravel())
        if len(flat) > 1 and flat[-1] - flat[-2] <= 1e-12 * level:
            tie = True
        i, j = np.unravel_index(np.argmax(s), s.shape)
        out[i] = int(j)
        s[i, :] = -np.inf
        s[:, j] = -np.inf
    return out, tie


def dhtv(mask, start, width, shift, main_iterations, sub_iterations, metric,
         algorithm):
    K, F, T = mask.shape
    features = normalise(mask.astype(float)) if metric == 'cos' else mask.astype(float).copy()
    m = 'multiply' if metric == 'cos' else metric
    order = [list(range(K)) for _ in range(F)]
    tie = False
    for iters, b, e in plan(F, start, width, shift, main_iterations, sub_iterations):
        for _ in range(iters):
            centroid = features[:, b:e].mean(axis=1)
            if metric == 'cos':
                centroid = normalise(centroid)
            changed = False
            for f in range(b, e):
                p, t = assign(score(features[:, f], centroid, m), algorithm)
                tie = tie or t
                if p != list(range(K)):
                    changed = True
                    features[:, f] = features[p, f]
                    order[f] = [order[f][q] for q in p]
            if not changed:
                break
    mapping = np.array(order).T
    return mapping, features, tie


def greedy_chain(mask, metric):
    K, F, T = mask.shape
    x = mask.astype(float)
    if metric == 'cos':
        x = normalise(x)
    m = 'multiply' if metric == 'cos' else metric
    mapping = np.zeros((K, F), dtype=int)
    mapping[:, 0] = np.arange(K)
    tie = False
    for f in range(1, F):
        # assignment of the rows of bin f to the rows of bin f-1 (raw order)
        p, t = assign(score(x[:, f], x[:, f - 1], m), 'greedy')
        tie = tie or t
        p = np.array(p)
        mapping[:, f] = p[mapping[:, f - 1]]
    return mapping, tie
