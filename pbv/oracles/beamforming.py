"""Loop-level reference formulas for PSD estimation and beamforming
(no import of pb_bss).  Every function works on ONE frequency bin."""
import numpy as np


def psd(x, m=None, normalize=True):
    """x (D, T); m (T,) or None ->  sum_t m x x^H / max(sum_t m, 1e-10)"""
    D, T = x.shape
    acc = np.zeros((D, D), dtype=np.complex128)
    tot = 0.0
    for t in range(T):
        w = 1.0 if m is None else float(m[t])
        acc += w * np.outer(x[:, t], x[:, t].conj())
        tot += w
    if m is None:
        return acc / T
    if normalize:
        return acc / max(tot, 1e-10)
    return acc


def hermitian(a):
    return (a + a.conj().T) / 2


def mvdr(a, phi_nn):
    phi_nn = hermitian(phi_nn)
    num = np.linalg.solve(phi_nn, a)
    return num / (a.conj() @ num)


def lcmv(atfs, r, phi_nn):
    """atfs (K, D); r (K,)  ->  w with w^H a_k = r_k minimising w^H Phi w"""
    A = atfs.T                                   # (D, K)
    pia = np.linalg.solve(phi_nn, A)             # Phi^-1 A
    g = A.conj().T @ pia                         # A^H Phi^-1 A
    return pia @ np.linalg.solve(g, r.astype(np.complex128))


def souden(phi_xx, phi_nn, ref):
    g = np.linalg.solve(phi_nn, phi_xx)
    return g[:, ref] / np.trace(g)


def wmwf(phi_xx, phi_nn, ref, mu):
    g = np.linalg.solve(phi_nn, phi_xx)
    return g[:, ref] / (mu + np.trace(g))


def wmwf_exact(phi_xx, phi_nn, ref, mu):
    """argmin E|h^H x - x_ref|^2 + mu E|h^H n|^2 = (Phi_xx + mu Phi_nn)^-1 Phi_xx e_ref"""
    return np.linalg.solve(phi_xx + mu * phi_nn, phi_xx[:, ref])


def gen_eigvals(phi_xx, phi_nn):
    """generalised eigenvalues via Cholesky whitening (independent of eigh(a,b))"""
    L = np.linalg.cholesky(hermitian(phi_nn))
    Li = np.linalg.inv(L)
    m = Li @ hermitian(phi_xx) @ Li.conj().T
    return np.linalg.eigvalsh(hermitian(m))


def snr(w, phi_xx, phi_nn):
    num = (w.conj() @ phi_xx @ w).real
    den = (w.conj() @ phi_nn @ w).real
    return num / den


def ban_factor(w, phi_nn):
    num = np.sqrt((w.conj() @ phi_nn @ phi_nn @ w).real)
    den = (w.conj() @ phi_nn @ w).real
    return num / den
