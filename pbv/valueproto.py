"""Value semantics of library calls: results are a function of the argument
*values*.  Helpers shared by every check (core.Ctx.lib runs the refilled-buffer
protocol on a share of the library calls) and by C20 (purity at every call
site).  No import of pb_bss at module level."""
import dataclasses

import numpy as np


def canon(x):
    """nested, comparable representation of a result"""
    if dataclasses.is_dataclass(x) and not isinstance(x, type):
        return {f.name: canon(getattr(x, f.name)) for f in dataclasses.fields(x)}
    if isinstance(x, dict):
        return {str(k): canon(v) for k, v in x.items()}
    if isinstance(x, tuple) and hasattr(x, '_fields'):
        return {k: canon(getattr(x, k)) for k in x._fields}
    if isinstance(x, (list, tuple)):
        return [canon(v) for v in x]
    if isinstance(x, np.ndarray):
        return x
    if isinstance(x, (int, float, complex, str, bool, type(None), np.generic)):
        return x
    if hasattr(x, 'calculate_mapping'):
        return type(x).__name__
    return repr(x)


def same(a, b):
    if isinstance(a, dict):
        return isinstance(b, dict) and a.keys() == b.keys() and \
            all(same(a[k], b[k]) for k in a)
    if isinstance(a, list):
        return isinstance(b, list) and len(a) == len(b) and \
            all(same(x, y) for x, y in zip(a, b))
    if isinstance(a, np.ndarray) or isinstance(b, np.ndarray):
        a, b = np.asarray(a), np.asarray(b)
        return a.shape == b.shape and a.dtype == b.dtype and \
            np.array_equal(a, b, equal_nan=True)
    if isinstance(a, float) and isinstance(b, float) and a != a and b != b:
        return True
    return a == b


def reachable_arrays(obj, out, seen, depth=0):
    if id(obj) in seen or depth > 4:
        return
    if isinstance(obj, np.ndarray):
        seen.add(id(obj))
        if obj.dtype != object:
            out.append(obj)
    elif isinstance(obj, dict):
        seen.add(id(obj))
        for v in obj.values():
            reachable_arrays(v, out, seen, depth + 1)
    elif isinstance(obj, (list, tuple)):
        seen.add(id(obj))
        for v in obj:
            reachable_arrays(v, out, seen, depth + 1)
    elif dataclasses.is_dataclass(obj) and not isinstance(obj, type):
        seen.add(id(obj))
        for f in dataclasses.fields(obj):
            reachable_arrays(getattr(obj, f.name, None), out, seen, depth + 1)
    elif type(obj).__module__.startswith('pbv') and hasattr(obj, '__dict__'):
        # argument bundles of the harness (mm.Case: observations, start,
        # saliency, masks, fixed covariances ...)
        seen.add(id(obj))
        for v in vars(obj).values():
            reachable_arrays(v, out, seen, depth + 1)


def entry_name(fn):
    name = getattr(fn, '__qualname__', getattr(fn, '__name__', type(fn).__name__))
    return name.replace('<locals>.', '').replace('<lambda>', 'lambda')


def same_layout_copy(a):
    """a new array object with the same content *and the same strides*
    (summation order inside BLAS / einsum depends on the memory layout, and
    the comparison of the two calls is bit exact)"""
    if a.ndim == 0 or a.size == 0 or any(st < 0 for st in a.strides):
        return a.copy(order='K')
    nbytes = sum((n - 1) * st for n, st in zip(a.shape, a.strides)) + a.itemsize
    try:
        # same address modulo 64 as well (vectorised kernels may peel
        # differently for other alignments)
        raw = np.empty(nbytes + 128, dtype=np.uint8)
        want = a.ctypes.data % 64
        off = (want - raw.ctypes.data) % 64
        new = np.ndarray(a.shape, dtype=a.dtype, buffer=raw.data, offset=off,
                         strides=a.strides)
    except (TypeError, ValueError):
        return a.copy(order='K')
    new[...] = a
    return new


def fresh(obj, memo, depth=0):
    """new array objects with the same content; everything that is not data
    (modules, functions, trainers, aligners ...) is passed on as it is"""
    if id(obj) in memo:
        return memo[id(obj)]
    if depth > 5:
        return obj
    if isinstance(obj, np.ndarray):
        new = same_layout_copy(obj)
    elif isinstance(obj, dict):
        new = {k: fresh(v, memo, depth + 1) for k, v in obj.items()}
    elif isinstance(obj, list):
        new = [fresh(v, memo, depth + 1) for v in obj]
    elif isinstance(obj, tuple) and not hasattr(obj, '_fields'):
        new = tuple(fresh(v, memo, depth + 1) for v in obj)
    elif (dataclasses.is_dataclass(obj) and not isinstance(obj, type)) or (
            type(obj).__module__.startswith('pbv') and hasattr(obj, '__dict__')
            and not callable(obj)):
        import copy
        new = copy.copy(obj)
        for k, v in list(vars(obj).items()):
            object.__setattr__(new, k, fresh(v, memo, depth + 1))
    else:
        new = obj
    memo[id(obj)] = new
    return new



def refilled_buffer(fn, args, kwargs, passed, state, turn):
    """A caller's array that is refilled in place between two calls must give
    what a fresh array with the same content gives (no identity-keyed caches,
    no results that alias internal workspaces).  One passed floating point
    array is overwritten in place (reversed along its first axis, or scaled by
    1.5), the call is repeated with the very same objects and with fresh
    copies of all data arguments (closure cells of a lambda included);
    outcomes must agree.  Whether the new content is meaningful input does not
    matter - both calls see it.  Returns None, or a description of the
    disagreement.  ``passed``: list of candidate arrays; ``state``:
    NumPy random state to start both calls from; ``turn``: selects the array
    and the kind of refill."""
    cands = [a for a in passed
             if a.dtype.kind in 'fc' and a.ndim >= 1 and a.size >= 2]
    if not cands:
        return None
    pick = cands[turn % len(cands)]
    relock = False
    if not pick.flags.writeable:
        # an array the caller (the harness) has frozen itself: thaw it for
        # the refill, freeze it again afterwards
        try:
            pick.setflags(write=True)
            relock = True
        except ValueError:
            return None
    try:
        return _refill_and_compare(fn, args, kwargs, pick, state, turn)
    finally:
        if relock:
            pick.setflags(write=False)


def _refill_and_compare(fn, args, kwargs, pick, state, turn):
    import pb_bss._verif as hook
    saved = pick.copy()
    if turn % 3 == 2 or pick.shape[0] < 2:
        pick *= 1.5
    else:
        pick[...] = pick[::-1].copy()
    if np.array_equal(pick, saved):
        pick[...] = saved
        return None

    def outcome(f, a, k):
        np.random.set_state(state)
        try:
            # (a snapshot: the result may alias the argument that is
            # restored afterwards)
            return ('ok', fresh(canon(f(*a, **k)), {}))
        except Exception as e:  # noqa
            return ('raises', type(e).__name__)

    cells = [c for c in (getattr(fn, '__closure__', None) or ())]
    old_cells = []
    hook_enabled, hook.ENABLED = hook.ENABLED, False
    try:
        same_objects = outcome(fn, args, kwargs)
        memo = {}
        fresh_args = fresh(args, memo)
        fresh_kwargs = fresh(kwargs, memo)
        for c in cells:
            try:
                v = c.cell_contents
            except ValueError:
                continue
            new = fresh(v, memo)
            if new is not v:
                old_cells.append((c, v))
                c.cell_contents = new
        fresh_objects = outcome(fn, fresh_args, fresh_kwargs)
    finally:
        for c, v in old_cells:
            c.cell_contents = v
        hook.ENABLED = hook_enabled
        pick[...] = saved
    if same_objects[0] != fresh_objects[0] or not same(same_objects[1], fresh_objects[1]):
        return (f'after refilling an argument array in place the call returns '
                f'{same_objects[0]} / a fresh array with the same content '
                f'{fresh_objects[0]} with different values')
    return ''
