"""Runs one trainer step in a pristine interpreter and prints a digest of the
result (used by C20 to compare against a process with an arbitrary history).

    python -m pbv.stepworker  < {"kind": .., "trainer_kwargs": .., "step": ..}
"""
import hashlib
import json
import sys

from pbv import runner  # noqa: F401  (sets up sys.path / environment)
import numpy as np  # noqa: E402


def digest(c):
    h = hashlib.sha256()

    def rec(x):
        if isinstance(x, dict):
            for k in sorted(x):
                h.update(str(k).encode())
                rec(x[k])
        elif isinstance(x, list):
            h.update(b'[')
            for v in x:
                rec(v)
            h.update(b']')
        elif isinstance(x, np.ndarray):
            h.update(str(x.shape).encode() + str(x.dtype).encode())
            h.update(np.ascontiguousarray(x).tobytes())
        else:
            h.update(repr(x).encode())
    rec(c)
    return h.hexdigest()


def main():
    from pbv.props import c20
    doc = json.load(sys.stdin)
    trainer = c20.make_trainer(doc['kind'], doc['trainer_kwargs'])
    with np.errstate(all='ignore'):
        try:
            res = c20.canon(c20.run_step(doc['kind'], trainer, doc['step']))
        except Exception as e:  # noqa
            res = ['raises', type(e).__name__]
    print('DIGEST', digest(res))


if __name__ == '__main__':
    main()
